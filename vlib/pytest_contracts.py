"""pytest plugin: switch the detector contracts on for the repository's own tests (C05 thorough tier)."""
import os, sys
def pytest_configure(config):
    repo_dir = os.environ.get('VERIF_CONTRACTS_REPO', '/repo')
    if repo_dir not in sys.path:
        sys.path.insert(0, repo_dir)
    from vlib import repo as _r
    _r._scratch = repo_dir            # contracts are installed on the tree pytest itself imports
    from vlib import contracts
    contracts.install()
def pytest_terminal_summary(terminalreporter):
    from vlib import contracts
    terminalreporter.write_line('contract evaluations: ' + repr(dict(contracts.EVALS)))
