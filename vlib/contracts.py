"""icontract post-conditions attached from the harness to the real detector functions (no source edit).
Named condition functions + explicit error classes; every evaluation is counted so a run in which a contract never ran is inconclusive."""
import sys, os
from collections import Counter
from . import repo

EVALS = Counter()

class ContractBroken(Exception):
    pass

def _lkl(s):
    return ''.join(c.lower() if len(c.lower()) == 1 else c for c in s)

def _join(parsing):
    return ''.join(seg for seg, _ in parsing)

def install():
    """Idempotent.  Patches the name in the defining module (callers look it up there at call time)."""
    import icontract
    repo.scratch()
    import lib_trainer.detection_rules.alpha_detection as ad
    import lib_trainer.detection_rules.digit_detection as dd
    import lib_trainer.detection_rules.year_detection as yd
    import lib_trainer.detection_rules.context_sensitive_detection as cd
    import lib_trainer.detection_rules.email_detection as ed
    import lib_trainer.detection_rules.website_detection as wd
    import lib_trainer.detection_rules.multiword_detector as md
    import lib_trainer.pcfg_password_parser as ppp
    if getattr(ad, '_verif_contracts', False):
        return
    ad._verif_contracts = True

    def alpha_lossless(section, result):
        EVALS['detect_alpha'] += 1
        parsing, words, masks = result
        if words is None:
            return True
        return (_join(parsing) == section[0] and len(words) == len(masks) and all(len(w) == len(m) for w, m in zip(words, masks))
                and all(seg != '' for seg, _ in parsing))
    ad.detect_alpha = icontract.ensure(alpha_lossless, error=lambda section, result: ContractBroken(f'detect_alpha is lossy on {section!r}: {result!r}'))(ad.detect_alpha)

    def digits_lossless(section, result):
        EVALS['detect_digits'] += 1
        parsing, found = result
        return found is None or (_join(parsing) == section[0] and all(seg != '' for seg, _ in parsing))
    dd.detect_digits = icontract.ensure(digits_lossless, error=lambda section, result: ContractBroken(f'detect_digits is lossy on {section!r}: {result!r}'))(dd.detect_digits)

    def year_lossless(section, result):
        EVALS['detect_year'] += 1
        parsing, found = result
        return found is None or (_join(parsing) == section[0] and all(seg != '' for seg, _ in parsing))
    yd.detect_year = icontract.ensure(year_lossless, error=lambda section, result: ContractBroken(f'detect_year is lossy on {section!r}: {result!r}'))(yd.detect_year)

    def context_lossless(section, result):
        EVALS['detect_context_sensitive'] += 1
        parsing, found = result
        return found is None or (_join(parsing) == section[0] and all(seg != '' for seg, _ in parsing))
    cd.detect_context_sensitive = icontract.ensure(context_lossless, error=lambda section, result: ContractBroken(f'detect_context_sensitive is lossy on {section!r}: {result!r}'))(cd.detect_context_sensitive)

    def email_lossless(section, result):
        EVALS['detect_email'] += 1
        parsing, found, provider = result
        return found is None or (_join(parsing) == section[0] and all(seg != '' for seg, _ in parsing))
    ed.detect_email = icontract.ensure(email_lossless, error=lambda section, result: ContractBroken(f'detect_email is lossy on {section!r}: {result!r}'))(ed.detect_email)

    def website_lossless(section, result):
        EVALS['detect_website'] += 1
        parsing, url, host, prefix = result
        return url is None or (_lkl(_join(parsing)) == _lkl(section[0]) or _join(parsing).lower() == section[0].lower()) and all(seg != '' for seg, _ in parsing)
    wd.detect_website = icontract.ensure(website_lossless, error=lambda section, result: ContractBroken(f'detect_website is lossy on {section!r}: {result!r}'))(wd.detect_website)

    def multiword_partition(alpha_string, result):
        EVALS['MultiWordDetector.parse'] += 1
        ok, parts = result
        return ''.join(parts) == alpha_string and all(p != '' for p in parts)
    md.MultiWordDetector.parse = icontract.ensure(multiword_partition, error=lambda alpha_string, result: ContractBroken(f'MultiWordDetector.parse does not partition {alpha_string!r}: {result!r}'))(md.MultiWordDetector.parse)

    def counter_updated(input_counter, input_list):
        EVALS['_update_counter_len_indexed'] += 1
        return all(len(item) in input_counter and input_counter[len(item)][item] >= 1 for item in input_list)
    ppp.PCFGPasswordParser._update_counter_len_indexed = icontract.ensure(counter_updated, error=lambda input_counter, input_list: ContractBroken(f'_update_counter_len_indexed lost an item of {input_list!r}'))(ppp.PCFGPasswordParser._update_counter_len_indexed)
