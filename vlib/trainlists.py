"""Training-list / candidate-string generators: fragment grammars + mutators + Unicode classes."""
import random

WORDS = ['password', 'dragon', 'monkey', 'love', 'pass', 'word', 'super', 'man', 'iloveyou', 'secret', 'blue', 'house', 'test', 'admin',
         'summer', 'winter', 'hello', 'world', 'cat', 'dog', 'a', 'qz', 'sunshine', 'football', 'base', 'ball', 'star', 'wars']
CYR = ['пароль', 'любовь', 'привет', 'кот', 'солнце', 'москва']
GRK = ['κωδικος', 'αγαπη', 'ηλιος']
CASELESS = ['中文', '密码', '中文密码', 'パスワード', 'ไทย', 'שלום', 'مرحبا', '한국']        # letters without case
TURK = ['İstanbul', 'İzmir', 'ışık', 'çay', 'İ', 'DİL']          # cp1254 / iso8859-9 hold U+0130, whose lower() (i + combining dot) they cannot represent
LAT1 = ['señor', 'über', 'café', 'garçon', 'niño', 'été', 'ärger']
MULTI = ['superman', 'basketball', 'starwars', 'passwordpassword', 'bluehouse', 'hellokitty', 'loveyou', 'testtest', 'summerlove']
DIGITS = ['1', '12', '123', '1234', '12345', '123456', '007', '00', '42', '69', '2580', '99', '8', '111111', '31337']
YEARS = ['1999', '2000', '2012', '1984', '2023', '1975', '2001']
SYMS = ['!', '!!', '@', '#', '$', '.', '_', '-', '!@#', '*', '?', ' ', '  ', '%$', '+', '=', '"', '""', "'", ',', ';', '\\', '!"', '`', '|', '~', '[', ']', '(', ')', '{}', '<>', '&', '^', '/', ':',
        '\x7f', '\x9f', '\x80\x80', '\ufeff', '\ufeff!']          # DEL and C1 controls: not among the characters the trainer rejects (< 0x20, U+0085, U+2028, U+2029)
WALKS = ['1qaz', 'qwer', '1qaz2wsx', 'zaq1', '!qaz', 'qwert', '1q2w3e4r', 'asdf;', 'йцук1', '2wsx3edc']
CONTEXT = ['#1', '<3', ';p', ':p', 'Mr.', 'No.1', '*0*', 'i<3', 'Dr.', 'St.', 'No.']
NONBMP = ['😀', '🔑', '𝒜', '🐱']
EMAILS = ['bob@gmail.com', 'a.b@mail.ru', 'x@y.org', 'me@example.co.uk']
SITES = ['www.google.com', 'http://www.site.net', 'example.org', 'http://x.com/path', 'my.site.info']

def cap(rng, w):
    r = rng.random()
    if r < 0.55:
        return w
    if r < 0.75:
        return w[:1].upper() + w[1:]
    if r < 0.85:
        return w.upper()
    if r < 0.92:
        return w[:-1] + w[-1:].upper()
    return ''.join(c.upper() if rng.random() < 0.5 else c for c in w)

def word(rng, classes):
    pool = list(WORDS)
    if 'cyr' in classes:
        pool += CYR * 3
    if 'grk' in classes:
        pool += GRK * 3
    if 'lat1' in classes:
        pool += LAT1 * 3
    if 'caseless' in classes:
        pool += CASELESS * 2
    if 'tr' in classes:
        pool += TURK * 3
    return cap(rng, rng.choice(pool))

def password(rng, classes=('ascii',), allow_ew=False, max_parts=4):
    kinds = ['word', 'word', 'word', 'digits', 'digits', 'sym', 'year', 'walk', 'context', 'multi']
    if 'nonbmp' in classes:
        kinds += ['nonbmp']
    if allow_ew:
        kinds += ['email', 'site']
    n = rng.choice([1, 1, 2, 2, 2, 3, 3, max_parts])
    out = []
    for _ in range(n):
        k = rng.choice(kinds)
        if k == 'word':
            out.append(word(rng, classes))
        elif k == 'multi':
            out.append(cap(rng, rng.choice(MULTI)))
        elif k == 'digits':
            out.append(rng.choice(DIGITS))
        elif k == 'sym':
            out.append(rng.choice(SYMS))
        elif k == 'year':
            out.append(rng.choice(YEARS))
        elif k == 'walk':
            out.append(rng.choice(WALKS if 'cyr' in classes else [w for w in WALKS if w.isascii()]))
        elif k == 'context':
            c = rng.choice(CONTEXT)
            # also spellings that are NOT in the detector's list (they are ordinary letters + symbols then)
            out.append(c if rng.random() < 0.6 else rng.choice([c.upper(), c.lower(), c.swapcase(), c.title()]))
        elif k == 'nonbmp':
            out.append(rng.choice(NONBMP))
        elif k == 'email':
            out.append(rng.choice(EMAILS))
        elif k == 'site':
            out.append(rng.choice(SITES))
    pw = ''.join(out)
    return pw if pw.strip() != '' or pw else 'x'

ENCODINGS = {'utf-8-sig': ('ascii', 'cyr', 'grk', 'lat1', 'nonbmp', 'caseless'), 'utf-8': ('ascii', 'cyr', 'grk', 'lat1', 'nonbmp', 'caseless'), 'latin-1': ('ascii', 'lat1'), 'cp1251': ('ascii', 'cyr'),
             'cp1252': ('ascii', 'lat1'), 'cp1254': ('ascii', 'lat1', 'tr'), 'ascii': ('ascii',), 'iso-8859-7': ('ascii', 'grk')}

def encodable(s, enc):
    try:
        s.encode(enc)
        return True
    except UnicodeEncodeError:
        return False

def gen_list(rng, encoding='utf-8', n_distinct=None, allow_ew=True, boost_words=True):
    """Returns list of (password, multiplicity). Some base words are repeated >= 5 times so multi-word splitting triggers."""
    classes = tuple(c for c in ENCODINGS[encoding] if c == 'ascii' or rng.random() < 0.6)
    n = n_distinct or rng.randint(3, 12)
    items = []
    seen = set()
    tries = 0
    while len(items) < n and tries < 500:
        tries += 1
        pw = password(rng, classes, allow_ew=allow_ew and rng.random() < 0.3)
        if pw in seen or not encodable(pw, encoding) or pw == '' or '\t' in pw:
            continue
        seen.add(pw)
        items.append((pw, rng.choice([1, 1, 1, 2, 2, 6])))
    if boost_words and rng.random() < 0.7:
        # make the parts of one multi-word frequent enough (>= 5) to be split
        mw = rng.choice(['superman', 'starwars', 'bluehouse', 'baseball', 'lovehouse', 'passwordtest'])
        parts = {'superman': ['super', 'man1'], 'starwars': ['star', 'wars'], 'bluehouse': ['blue', 'house'], 'baseball': ['base', 'ball'],
                 'lovehouse': ['love', 'house'], 'passwordtest': ['password', 'test']}[mw]
        for p in parts:
            if p not in seen:
                items.append((p, rng.choice([5, 5, 6, 4])))
                seen.add(p)
        if mw not in seen:
            items.append((cap(rng, mw) + rng.choice(['', '1', '!']), rng.choice([1, 2, 4])))
    if boost_words and rng.random() < 0.5:
        # three-word multi-words sharing a tail: every base word frequent enough to be a split part, the concatenations rare
        pool = [w for w in ['correct', 'horse', 'battery', 'staple', 'blue', 'moon', 'river', 'stone', 'fire', 'wall', 'night', 'king'] if w not in seen]
        if len(pool) >= 4:
            ws = rng.sample(pool, 4)
            for w in ws:
                items.append((w, rng.choice([5, 5, 6, 7])))
                seen.add(w)
            combos = [ws[0] + ws[1] + ws[2], ws[3] + ws[1] + ws[2], ws[1] + ws[2] + rng.choice(['!', '1', '']), ws[0] + ws[3]]
            for c in rng.sample(combos, rng.randint(2, 4)):
                c = cap(rng, c)
                if len(c) < 21 + 2 and c not in seen:
                    items.append((c, rng.choice([1, 1, 2])))
                    seen.add(c)
    rng.shuffle(items)
    return items

def render_plain(items, encoding, eol=b'\n'):
    if encoding.lower().replace('_', '-') in ('utf-8-sig',):
        # a codec with a byte-order mark: encode the text as a whole (one BOM at the start of the file)
        return ''.join((pw + eol.decode('ascii')) * k for pw, k in items).encode(encoding)
    out = b''
    for pw, k in items:
        out += (pw.encode(encoding) + eol) * k
    return out

def render_prefix(items, encoding, eol=b'\n'):
    """The same list as `sort | uniq -c` writes it (for --prefixcount): right-aligned count, one blank, the password."""
    if encoding.lower().replace('_', '-') in ('utf-8-sig',):
        return ''.join('%7d %s%s' % (k, pw, eol.decode('ascii')) for pw, k in items).encode(encoding)
    out = b''
    for pw, k in items:
        out += (b'%7d ' % k) + pw.encode(encoding) + eol
    return out
