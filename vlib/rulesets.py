"""Synthetic ruleset writer (on-disk format of trainer 4.7) and ruleset generators.
A ruleset *spec* is a JSON-able dict:
  {'encoding', 'uuid', 'base': [[struct, prob]...], 'prince': [[struct, prob]...],
   'terms': {'A3': [[value, prob]...], 'C3': [...], 'D1': ..., 'O2': ..., 'K4': ..., 'Y1': ..., 'X1': ...},
   'omen': {'ngram', 'ip': [[level, ngram]...], 'cp': [[level, ngram]...], 'ln': [levels...],
            'probs': [[level, prob]...], 'keyspace': [[level, n]...]} }
Probabilities are Python floats written with repr() (shortest round-trip), so float(text) gives the same double."""
import os, json, uuid, configparser, itertools, random

FAM = {'A': 'Alpha', 'C': 'Capitalization', 'D': 'Digits', 'O': 'Other', 'K': 'Keyboard'}
DEFAULT_OMEN = dict(ngram=2, ip=[[0, 'a']], cp=[[0, 'aa']], ln=[10, 0] + [10] * 3, probs=[], keyspace=[])

def fmt(p):
    return p if isinstance(p, str) else repr(float(p))

def write_ruleset(d, spec):
    enc = spec.get('encoding', 'utf-8')
    for sub in ['Grammar', 'Alpha', 'Capitalization', 'Digits', 'Other', 'Keyboard', 'Years', 'Context', 'Omen',
                'Emails', 'Websites', 'Prince', 'Masks']:
        os.makedirs(os.path.join(d, sub), exist_ok=True)
    # spec['no_final_newline']: the files end without a line feed after their last line (hand-edited files, files written with '\n'.join(rows))
    nfn = bool(spec.get('no_final_newline'))
    def w(path, rows, e=enc):
        with open(path, 'w', encoding=e, newline='') as f:
            text = ''.join(f"{v}\t{fmt(p)}\n" for v, p in rows)
            f.write(text[:-1] if nfn and text else text)
    w(os.path.join(d, 'Grammar', 'grammar.txt'), spec['base'], 'ascii')
    w(os.path.join(d, 'Prince', 'grammar.txt'), spec.get('prince') or [], 'ascii')
    files = {k: [] for k in FAM}
    for name, rows in spec['terms'].items():
        t, n = name[0], name[1:]
        if t in FAM:
            w(os.path.join(d, FAM[t], n + '.txt'), rows)
            files[t].append(n + '.txt')
        elif t == 'Y':
            w(os.path.join(d, 'Years', '1.txt'), rows)
        elif t == 'X':
            w(os.path.join(d, 'Context', '1.txt'), rows)
        elif t == 'E':
            w(os.path.join(d, 'Emails', 'email_providers.txt'), rows)
        elif t == 'W':
            w(os.path.join(d, 'Websites', 'website_hosts.txt'), rows)
    for f in ['Years/1.txt', 'Context/1.txt', 'Emails/email_providers.txt', 'Websites/website_hosts.txt',
              'Websites/website_prefixes.txt']:
        p = os.path.join(d, f)
        if not os.path.exists(p):
            open(p, 'w').close()
    c = configparser.ConfigParser()
    c['TRAINING_PROGRAM_DETAILS'] = {'contact': 'x', 'author': 'x', 'program': 'PCFG Trainer', 'version': '4.7'}
    c['TRAINING_DATASET_DETAILS'] = {'comments': '', 'filename': 'x.txt', 'encoding': enc,
                                     'uuid': spec.get('uuid') or str(uuid.UUID(int=random.getrandbits(128))),
                                     'number_of_passwords_in_set': '10', 'number_of_encoding_errors': '0'}
    def sec(name, nm, dr, fl):
        c[name] = {'name': nm, 'directory': dr, 'filenames': json.dumps(fl)}
    sec('BASE_A', 'A', 'Alpha', files['A']); sec('BASE_D', 'D', 'Digits', files['D']); sec('BASE_O', 'O', 'Other', files['O'])
    sec('BASE_K', 'K', 'Keyboard', files['K']); sec('BASE_X', 'X', 'Context', ['1.txt']); sec('BASE_Y', 'Y', 'Years', ['1.txt'])
    sec('CAPITALIZATION', 'C', 'Capitalization', files['C'])
    with open(os.path.join(d, 'config.ini'), 'w') as f:
        c.write(f)
    write_omen(os.path.join(d, 'Omen'), spec.get('omen') or DEFAULT_OMEN, enc)
    return d

def write_omen(od, om, enc='utf-8'):
    os.makedirs(od, exist_ok=True)
    with open(os.path.join(od, 'config.txt'), 'w') as f:
        f.write(f"[training_settings]\nngram = {om['ngram']}\nencoding = {enc}\n")
    with open(os.path.join(od, 'alphabet.txt'), 'w', encoding=enc, newline='') as f:
        for ch in sorted({ch for _, g in list(om['ip']) + list(om['cp']) for ch in g}):
            f.write(ch + '\n')
    # om['no_final_newline']: the level files end without a line feed after their last record (hand-edited files, files written with '\n'.join(rows))
    cut = (lambda t: t[:-1] if t.endswith('\n') else t) if om.get('no_final_newline') else (lambda t: t)
    for fn, key in [('IP.level', 'ip'), ('CP.level', 'cp'), ('EP.level', 'ip')]:
        with open(os.path.join(od, fn), 'w', encoding=enc, newline='') as f:
            f.write(cut(''.join(f"{l}\t{g}\n" for l, g in om[key])))
    with open(os.path.join(od, 'LN.level'), 'w') as f:
        f.write(cut(''.join(f"{l}\n" for l in om['ln'])))
    with open(os.path.join(od, 'pcfg_omen_prob.txt'), 'w', encoding=enc, newline='') as f:
        for l, p in om.get('probs', []):
            f.write(f"{l}\t{fmt(p)}\n")
    # omen_keyspace.txt: in a ruleset declared utf-8-sig it carries no byte-order mark here (a hand-made / repaired ruleset; the codec reads both forms)
    with open(os.path.join(od, 'omen_keyspace.txt'), 'w', encoding=('utf-8' if enc.lower().replace('_', '-') == 'utf-8-sig' else enc), newline='') as f:
        for l, k in om.get('keyspace', []):
            f.write(f"{l}\t{k}\n")

# ------------------------------------------------------------------ probability pools
def prob_vector(rng, n, pool):
    """n strictly positive floats in non-increasing order drawn from a pool designed to provoke ties / rounding."""
    if pool == 'dyadic':
        vals = [2.0 ** -rng.randint(1, 5) for _ in range(n)]
    elif pool == 'dyadic3':
        vals = [rng.choice([0.5, 0.25, 0.125, 0.75, 0.375]) for _ in range(n)]
    elif pool == 'decimal':
        vals = [rng.choice([0.1, 0.2, 0.3, 0.4, 0.5, 0.6, 0.7, 0.05, 0.15, 0.25]) for _ in range(n)]
    elif pool == 'thirds':
        vals = [rng.choice([1 / 3, 1 / 6, 1 / 7, 2 / 7, 3 / 7, 1 / 9, 0.1, 0.3]) for _ in range(n)]
    elif pool == 'tiny':
        vals = [rng.choice([1e-150, 1e-160, 5e-324, 1e-300, 2e-308, 1e-200, 0.5, 1e-100]) for _ in range(n)]
    elif pool == 'nearties':
        # adjacent entries that differ only in the last bits / by ~1e-12 relative: different probabilities, hence different groups
        import math
        vals = []
        while len(vals) < n:
            x = rng.choice([0.3, 0.1, 0.2, 1 / 3, 0.25, 0.15, 0.05])
            vals.append(x)
            for _ in range(rng.randint(0, 2)):
                if len(vals) < n:
                    x = rng.choice([math.nextafter(x, 0.0), x * (1 - 1e-12), x * (1 - 3e-10), math.nextafter(math.nextafter(x, 0.0), 0.0)])
                    vals.append(x)
    elif pool == 'equal':
        v = rng.choice([0.5, 0.25, 0.2, 0.1])
        vals = [v] * n
    elif pool == 'rare':         # what a trainer writes for a large list: a few dominant counts and some 1-in-10^4..10^7 ones (repr() switches to exponent notation below 1e-4)
        N = rng.choice([12602, 100003, 3 * 10 ** 6, 14344391])
        cnt = sorted((rng.choice([1, 1, 2, 3, 7, rng.randint(1, N // (2 * n))]) for _ in range(n)), reverse=True)
        vals = [c / N for c in cnt]
    elif pool == 'counts':       # what a trainer would write: k/N
        cnt = [rng.randint(1, 4) for _ in range(n)]
        N = sum(cnt) + rng.randint(0, 2 * n)
        vals = [c / N for c in cnt]
    else:
        vals = [rng.random() * 0.9 + 1e-3 for _ in range(n)]
    vals.sort(reverse=True)
    return vals

POOLS = ['dyadic', 'dyadic3', 'decimal', 'thirds', 'tiny', 'equal', 'counts', 'random', 'nearties', 'rare']

ALPHA_WORDS = {1: ['a', 'b', 'z', 'я', 'é'], 2: ['ab', 'zz', 'hi', 'да', 'ñu'], 3: ['cat', 'dog', 'abc', 'кот', 'été', 'fox'],
               4: ['pass', 'word', 'love', 'тест', 'ärger', 'blue'][:4] + ['grün'], 5: ['hello', 'world', 'admin', 'привет'[:5], 'señor']}
DIGITS = {1: list('0123456789'), 2: ['12', '00', '99', '07', '42'], 3: ['123', '000', '007', '321'], 4: ['1234', '0000', '2580', '1111']}
# U+FEFF (zero width no-break space / byte-order mark) is an ordinary 'other' character for the trainer; as the first value of a file it must not be taken for a BOM
OTHER = {1: list('!@#$%^&*. ') + ['\ufeff', '\xa0'], 2: ['!!', '!@', '$$', ' !', '. ', '__', '\ufeff!', '!\ufeff'], 3: ['!!!', '!@#', ' - ', '...', '\ufeff..']}
KEYB = {4: ['1qaz', 'qwer', '!qaz', 'zaq1'], 5: ['1qazx', 'qwert'], 6: ['1qaz2w']}
YEARS = ['1999', '2000', '2012', '1984', '2023']
CONTEXT = ['#1', '<3', ';p', 'Mr.', 'No.1', '*0*']

def masks_for(n, rng, k):
    allm = [''.join(m) for m in itertools.product('LU', repeat=n)] if n <= 4 else None
    out = ['L' * n]
    cands = allm or (['U' + 'L' * (n - 1), 'U' * n, 'L' * (n - 1) + 'U'] + [''.join(rng.choice('LU') for _ in range(n)) for _ in range(6)])
    cands = [m for m in dict.fromkeys(cands) if m != 'L' * n]
    rng.shuffle(cands)
    out += cands[:max(0, k - 1)]
    rng.shuffle(out)
    return out

def rows_grouped(rng, values, ngroups, pool):
    """Distribute distinct values over ngroups probability groups (consecutive equal probabilities = one group)."""
    values = list(values)
    ngroups = max(1, min(ngroups, len(values)))
    probs = prob_vector(rng, ngroups, pool)
    # groups are formed by *consecutive equal* probabilities: make the vector strictly decreasing unless pool wants ties
    rows, gi = [], 0
    cuts = sorted(rng.sample(range(1, len(values)), ngroups - 1)) if ngroups > 1 else []
    bounds = [0] + cuts + [len(values)]
    for g in range(ngroups):
        for v in values[bounds[g]:bounds[g + 1]]:
            rows.append([v, probs[g]])
    return rows

def gen_terminal(rng, label, pool, max_groups=4, max_per_group=3, min_groups=1):
    t, n = label[0], int(label[1:]) if label[1:] else 1
    ng = rng.randint(min(min_groups, max_groups), max_groups)
    want = ng + rng.randint(0, ng * (max_per_group - 1))
    def fill(src, alphabet, ok=lambda w: True):
        tries = 0
        while len(src) < want and tries < 200:
            tries += 1
            w = ''.join(rng.choice(alphabet) for _ in range(n))
            if w not in src and ok(w):
                src.append(w)
        return src
    if t == 'A':
        src = [w for w in dict.fromkeys(ALPHA_WORDS.get(n) or []) if len(w) == n]
        src = fill(src, 'abcdefghijklmnop')
    elif t == 'C':
        src = masks_for(n, rng, want)
    elif t == 'D':
        src = fill(list(DIGITS.get(n) or []), '0123456789')
    elif t == 'O':
        src = fill(list(OTHER.get(n) or []), '!@#$%^&*()_+-= .')
    elif t == 'K':
        src = list(KEYB.get(n) or ['1qaz2wsx3edc'[:n]])
    elif t == 'Y':
        src = list(YEARS)
    elif t == 'X':
        src = list(CONTEXT)
    else:
        raise ValueError(label)
    rng.shuffle(src)
    vals = src[:max(1, min(want, len(src)))]
    return rows_grouped(rng, vals, min(ng, len(vals)), pool)

LABELS = ['A1', 'A2', 'A3', 'A4', 'D1', 'D2', 'D3', 'O1', 'O2', 'K4', 'Y1', 'X1', 'D4', 'A5', 'O3']

def gen_omen(rng, alphabet=None, ngram=None, nlevels=None, max_len=None):
    """A random OMEN model. Levels per entry from small pools so that several levels are populated."""
    ngram = ngram or rng.choice([2, 2, 3, 3, 4, 5])
    # besides plain letters: a base letter next to a stand-alone combining mark (NFD text), and two canonically equivalent code points (A-ring / ANGSTROM SIGN):
    # n-grams are windows of code points, nothing may compose or fold them
    alphabet = alphabet or rng.choice(['ab', 'abc', 'a', 'abcd', 'xyя', 'ae\u0301', 'a\u00c5\u212b', 'e\u0301\u0308', 'a%', '%s{', 'b\\%'])      # also the characters of format strings
    if max_len is None and rng.random() < 0.15:
        # long guesses: more lengths than there are levels (12-21); a one- or two-letter alphabet keeps the level sets small enough to enumerate
        if rng.random() < 0.7:
            alphabet, max_len = alphabet[:1], rng.randint(12, 21)
        else:
            alphabet, max_len = alphabet[:2], rng.randint(12, 13)
    max_len = max_len or rng.randint(ngram, ngram + 3)
    pool = rng.choice([[0, 1, 2, 3], [0, 1], [0, 0, 1, 5, 10], list(range(11)), [0, 2, 4], [1, 2], [0]])
    ctxs = [''.join(t) for t in itertools.product(alphabet, repeat=ngram - 1)]
    dens = rng.choice([1.0, 0.8, 0.5])
    ip = [[rng.choice(pool), c] for c in ctxs if rng.random() < dens] or [[rng.choice(pool), ctxs[0]]]
    cp = []
    for c in ctxs:
        for ch in alphabet:
            if rng.random() < dens:
                cp.append([rng.choice(pool), c + ch])
    if not cp:
        cp = [[rng.choice(pool), ctxs[0] + alphabet[0]]]
    rng.shuffle(ip); rng.shuffle(cp)
    ln = [10] * max_len
    for L in range(ngram, max_len + 1):
        ln[L - 1] = rng.choice(pool + [10])
    if all(ln[L - 1] == 10 for L in range(ngram, max_len + 1)) and rng.random() < 0.8:
        ln[ngram - 1] = rng.choice(pool)
    om = dict(ngram=ngram, ip=ip, cp=cp, ln=ln, probs=[], keyspace=[])
    if rng.random() < 0.15:
        om['no_final_newline'] = True
    return om

def gen_spec(rng, *, pool=None, n_base=None, max_len=4, labels=None, with_m=None, omen_levels=None,
             max_groups=4, max_per_group=3, dup_base=None, min_groups=1):
    """Random well-formed ruleset spec."""
    pool = pool or rng.choice(POOLS)
    labels = labels or rng.sample(LABELS, rng.randint(2, 5))
    n_base = n_base or rng.randint(1, 4)
    structs = []
    for _ in range(n_base):
        L = rng.randint(1, max_len)
        if rng.random() < 0.35:      # repeat one variable type inside the structure
            lab = rng.choice(labels)
            s = [lab] * L
            if L > 2 and rng.random() < 0.5:
                s[rng.randrange(L)] = rng.choice(labels)
        else:
            s = [rng.choice(labels) for _ in range(L)]
        # no two adjacent D/O of the same family (the trainer never produces them) is NOT required by the loader: keep them
        structs.append(''.join(s))
    if dup_base is None:
        dup_base = rng.random() < 0.15
    if dup_base and structs:
        structs.append(rng.choice(structs))
    omen = None
    with_m = rng.random() < 0.3 if with_m is None else with_m
    if with_m:
        structs.insert(rng.randrange(len(structs) + 1), 'M')
    bprobs = prob_vector(rng, len(structs), rng.choice([pool, 'equal', 'counts']))
    base = [[s, p] for s, p in zip(structs, bprobs)]
    if len(base) >= 2 and rng.random() < 0.25:
        # the base-structure list in another order than by descending probability (a hand-edited or re-weighted grammar.txt): the loader reads every line and
        # the queue is seeded with all structures, so the order of the lines carries no meaning
        rng.shuffle(base)
    terms = {}
    used = set()
    for s in structs:
        if s == 'M':
            continue
        i = 0
        while i < len(s):
            j = i + 1
            while j < len(s) and s[j].isdigit():
                j += 1
            used.add(s[i:j]); i = j
    for lab in sorted(used):
        vpool = rng.choice([pool, pool, 'counts', 'random']) if pool != 'equal' else rng.choice(['equal', 'dyadic', 'counts'])
        terms[lab] = gen_terminal(rng, lab, vpool, max_groups, max_per_group, min_groups)
        if lab[0] == 'A':
            terms['C' + lab[1:]] = gen_terminal(rng, 'C' + lab[1:], rng.choice([pool, 'counts']), max(1, max_groups - 1), 2)
    if with_m:
        omen = gen_omen(rng)
        lv = omen_levels or rng.randint(1, 3)
        # levels 10 and above hold the strings that spend a whole level-10 step (an unseen transition / initial n-gram / length)
        levels = rng.sample(list(range(0, 8)) + [10, 11, 12, 20], lv)
        pr = sorted({round(rng.random() * 0.1, 6) + 1e-6 * (i + 1) for i in range(lv)}, reverse=True)
        while len(pr) < lv:
            pr.append(pr[-1] / 2)
        omen['probs'] = [[l, p] for l, p in zip(levels, pr)]
        omen['keyspace'] = [[l, 1] for l in range(0, 19)]
    spec = {'encoding': 'utf-8', 'uuid': str(uuid.UUID(int=rng.getrandbits(128))), 'base': base, 'prince': [],
            'terms': terms, 'omen': omen, 'pool': pool}
    if rng.random() < 0.15:
        spec['no_final_newline'] = True
    return spec


# besides letters with unusual case mappings: letters without any case (CJK, kana, Thai, Hebrew, Arabic) - a mask changes nothing, but every (word, mask)
# combination is still one guess
ODD_ALPHA = {1: ['ß', 'ŉ', 'ǰ', 'ﬁ', 'ΐ', 'ı', 'ſ', 'ǆ', '中', 'あ', 'ש', 'ÿ', 'µ', 'İ'], 2: ['ßa', 'aß', 'ŉo', 'ﬂy', 'ǆe', '中文', '日本', 'שם', 'ÿa', 'µm', 'İz'], 3: ['fuß', 'ßen', 'aŉb', 'ǰaz', 'ﬁre', 'ǆem', 'ไทย', 'パスワ', 'سلا', 'ÿes', 'µms', 'İst'],
             4: ['weiß', 'fußb', 'ßßßß', 'oﬃc', 'ßeta', '中文密码', 'שלום', 'ÿves', 'µsec'], 5: ['straß', 'große', 'maßes', 'ǆungl', 'こんにちは', 'مرحبا', 'İzmir']}

def add_odd_alpha(rng, spec, k=3):
    """Add alpha words with letters whose upper() is longer than one character, not reversible, or differs from title case (sharp s, n-apostrophe,
    ligatures, dz-digraph ...) to existing probability groups: masks must still be applied position by position with str.upper()."""
    n_added = 0
    for lab, rows in list(spec['terms'].items()):
        if lab[0] == 'A' and lab[1:].isdigit() and int(lab[1:]) in ODD_ALPHA:
            n = int(lab[1:])
            words = [w for w in ODD_ALPHA[n] if len(w) == n and w not in {v for v, _ in rows}]
            rng.shuffle(words)
            for w in words[:rng.randint(1, k)]:
                gi = rng.randrange(len(rows))
                rows.insert(gi + 1, [w, rows[gi][1]])
                n_added += 1
    return n_added


LEGACY = ['latin-1', 'cp1252', 'cp1251', 'iso-8859-7', 'cp437']

def legacy_variant(rng, spec, enc=None):
    """The same ruleset stored in a legacy single-byte encoding: values the code page cannot represent are dropped (at least one value per list is kept),
    a few letters whose upper-case form lies OUTSIDE the code page are added to the alpha lists (y-diaeresis and the micro sign under latin-1, the micro sign
    under cp1252 / cp1251 ...): the words are fine on disk, some of the guesses made from them are not representable in the encoding of the ruleset.
    Returns False (spec untouched) when the OMEN model cannot be represented."""
    enc = enc or rng.choice(LEGACY)
    def ok(v):
        try:
            v.encode(enc); return True
        except UnicodeEncodeError:
            return False
    om = spec.get('omen')
    if om and not all(ok(g) for _, g in om['ip'] + om['cp']):
        return False
    for lab, rows in list(spec['terms'].items()):
        keep = [r for r in rows if ok(r[0])]
        if not keep:
            n = int(lab[1:]) if lab[1:].isdigit() else 1
            fill = {'A': 'a' * n, 'D': '1' * n, 'O': '!' * n, 'K': '1qaz2wsx'[:n], 'C': 'L' * n}.get(lab[0])
            if fill is None:
                return False
            keep = [[fill, rows[0][1]]]
        spec['terms'][lab] = keep
    for lab, rows in spec['terms'].items():
        if lab[0] == 'A' and lab[1:].isdigit() and int(lab[1:]) in ODD_ALPHA:
            n = int(lab[1:])
            for w in ODD_ALPHA[n]:
                if len(w) == n and ok(w) and not ok(w.upper()) and w not in {v for v, _ in rows} and rng.random() < 0.8:
                    gi = rng.randrange(len(rows))
                    rows.insert(gi + 1, [w, rows[gi][1]])
    spec['encoding'] = enc
    return True
