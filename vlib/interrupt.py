"""Fault injection for the trainer: the real trainer.py is sent SIGINT (CTRL-C) at points spread over a training run.
   Today the trainer dies with KeyboardInterrupt and saves nothing.  Whatever a tool does with the signal, a ruleset it leaves behind is a ruleset a user will
   load: the checks that call this judge such a ruleset with the same oracles as any other (it is never required that nothing is saved)."""
import os, random, shutil, signal, subprocess, sys, threading, time
from . import repo

WORDS = ['love', 'blue', 'star', 'king', 'moon', 'pass', 'word', 'dragon', 'monkey', 'house', 'super', 'admin', 'qwerty', 'shadow', 'master']

def big_list(seed, n):
    rng = random.Random(seed)
    lines = []
    for _ in range(n):
        w = rng.choice(WORDS)
        lines.append(rng.choice([w + str(rng.randint(0, 99)), w.capitalize() + rng.choice('!.#') + str(rng.randint(1980, 2024)), str(rng.randint(0, 999999)).zfill(6),
                                 w + rng.choice(WORDS), w + '@mail.ru' if rng.random() < 0.05 else w + '1']))
    return ('\n'.join(lines) + '\n').encode('ascii')

def _train(name, tf, args, kill_after=None, timeout=180):
    s = repo.scratch()
    e = dict(os.environ, PYTHONHASHSEED='0', PYTHONIOENCODING='utf-8')
    e.pop('VERIF_SCRATCH', None); e.pop('PYTHONUNBUFFERED', None)
    t0 = time.time()
    p = subprocess.Popen([sys.executable, '-B', '-W', 'ignore', os.path.join(s, 'trainer.py'), '-r', name, '-t', tf] + args, cwd=s, env=e,
                         stdin=subprocess.DEVNULL, stdout=subprocess.PIPE, stderr=subprocess.PIPE)
    timer = None
    if kill_after is not None:
        def _int():
            try:
                p.send_signal(signal.SIGINT)
            except Exception:
                pass
        timer = threading.Timer(kill_after, _int); timer.start()
    try:
        out, err = p.communicate(timeout=timeout)
        to = False
    except subprocess.TimeoutExpired:
        p.kill(); out, err = p.communicate(); to = True
    if timer:
        timer.cancel()
    return {'name': name, 'path': os.path.join(s, 'Rules', name), 'rc': p.returncode, 'seconds': time.time() - t0, 'timed_out': to,
            'stdout_tail': out[-400:].decode('utf-8', 'replace'), 'stderr_tail': err[-400:].decode('utf-8', 'replace')}

def interrupted_trainings(seed, n_lines, args, points, parallel=4, tag='intr'):
    """One uninterrupted reference training of a synthetic list, then `points` trainings of the same list that get SIGINT at times spread over the reference
    duration.  Returns (reference, [outcome...], cleanup); an outcome has 'saved' = a Grammar/grammar.txt exists under its rule name."""
    s = repo.scratch()
    tf = os.path.join(s, f'{tag}_{os.getpid()}.txt')
    open(tf, 'wb').write(big_list(seed, n_lines))
    names = []
    def nm(k):
        n = f'{tag}_{os.getpid()}_{k}'
        names.append(n)
        return n
    ref = _train(nm('ref'), tf, args)
    T = ref['seconds']
    outs = [None] * points
    sem = threading.Semaphore(parallel)
    def one(i):
        with sem:
            # spread beyond the reference duration as well: on a loaded machine the interrupted runs are slower than the reference run was
            at = T * (0.08 + 1.6 * (i + 0.5) / points)
            o = _train(nm(i), tf, args, kill_after=at)
            o['at'] = at
            o['saved'] = os.path.exists(os.path.join(o['path'], 'Grammar', 'grammar.txt'))
            outs[i] = o
    ths = [threading.Thread(target=one, args=(i,)) for i in range(points)]
    for t in ths:
        t.start()
    for t in ths:
        t.join()
    def cleanup():
        for n in names:
            shutil.rmtree(os.path.join(s, 'Rules', n), ignore_errors=True)
            shutil.rmtree(os.path.join(s, 'Rules', n + '.partial'), ignore_errors=True)
        if os.path.exists(tf):
            os.remove(tf)
    return ref, outs, cleanup
