"""Reference models.  Deliberately small, obviously-correct, exponential-if-necessary.  NEVER imports the repository."""
import os, re, json, configparser, itertools
from fractions import Fraction
from collections import Counter

TOKEN = re.compile(r'[A-Z][0-9]*')

# ------------------------------------------------------------------ what is on disk
def read_rows(path, encoding):
    """Byte-level reader: decode, split on LF only, split each line at the LAST tab."""
    raw = open(path, 'rb').read()
    text = raw.decode(encoding, errors='surrogateescape')
    rows = []
    if text == '':
        return rows
    lines = text.split('\n')
    if lines[-1] == '':
        lines.pop()
    for ln in lines:
        v, _, p = ln.rpartition('\t')
        rows.append((v, p))
    return rows

def groups_of(rows):
    """Consecutive lines with equal probability form one group (terminal group / mask group / Markov group)."""
    out = []
    for v, p in rows:
        f = float(p)
        if out and f == out[-1][0]:
            out[-1][1].append(v)
        else:
            out.append((f, [v]))
    return out

class Disk:
    """Everything a ruleset directory holds, parsed independently of the tools."""
    def __init__(self, d):
        self.dir = d
        cfg = configparser.ConfigParser()
        cfg.read_file(open(os.path.join(d, 'config.ini')))
        self.cfg = cfg
        self.encoding = cfg.get('TRAINING_DATASET_DETAILS', 'encoding')
        self.uuid = cfg.get('TRAINING_DATASET_DETAILS', 'uuid')
        self.rows = {}          # label -> [(value, probtext)]
        fam = {'BASE_A': 'A', 'BASE_D': 'D', 'BASE_O': 'O', 'BASE_K': 'K', 'BASE_X': 'X', 'BASE_Y': 'Y', 'CAPITALIZATION': 'C'}
        self.filelists = {}
        for sec, letter in fam.items():
            directory = cfg.get(sec, 'directory')
            names = json.loads(cfg.get(sec, 'filenames'))
            self.filelists[letter] = (directory, names)
            for fn in names:
                self.rows[letter + fn.split('.')[0]] = read_rows(os.path.join(d, directory, fn), self.encoding)
        self.rows['M'] = read_rows(os.path.join(d, 'Omen', 'pcfg_omen_prob.txt'), self.encoding)
        self.rows['E'] = read_rows(os.path.join(d, 'Emails', 'email_providers.txt'), self.encoding)
        self.rows['W'] = read_rows(os.path.join(d, 'Websites', 'website_hosts.txt'), self.encoding)
        self.base_rows = {f: read_rows(os.path.join(d, f, 'grammar.txt'), 'ascii') for f in ('Grammar', 'Prince')
                          if os.path.exists(os.path.join(d, f, 'grammar.txt'))}

def tokens(struct):
    return TOKEN.findall(struct)

class Language:
    """The language of a ruleset under given flags, by brute enumeration (itertools.product over groups)."""
    def __init__(self, disk, skip_brute=False, all_lower=False, folder='Grammar'):
        self.disk = disk
        self.folder = folder
        self.groups = {lab: groups_of(rows) for lab, rows in disk.rows.items()}
        # one OMEN level per Markov pre-terminal ("expands to exactly the strings of its OMEN level"): levels are never merged
        self.groups['M'] = [(float(p), [v]) for v, p in disk.rows['M']]
        if all_lower:
            for lab in list(self.groups):
                if lab[0] == 'C':
                    self.groups[lab] = [(1.0, ['L' * int(lab[1:])])]
        rows = disk.base_rows[folder]
        total = 1.0
        self.p_markov = None
        if skip_brute:
            for s, p in rows:
                if s == 'M':
                    total = total - float(p)
                    self.p_markov = float(p)
                    break
        self.base = []          # (index in file, [labels with C inserted], base_prob float, exact Fraction or None)
        for bi, (s, p) in enumerate(rows):
            toks = tokens(s)
            if skip_brute and 'M' in toks:
                continue
            labs = []
            for t in toks:
                labs.append(t)
                if t[0] == 'A':
                    labs.append('C' + t[1:])
            self.base.append((bi, labs, float(p) / total, s))

    def preterminals(self, cap=None):
        """Yield (base_file_index, index_vector, float_prob_left_to_right, labels)."""
        n = 0
        for bi, labs, bp, s in self.base:
            sizes = [len(self.groups.get(l, [])) for l in labs]
            if 0 in sizes:
                continue
            for idx in itertools.product(*[range(k) for k in sizes]):
                pr = bp
                for l, i in zip(labs, idx):
                    pr *= self.groups[l][i][0]
                yield bi, idx, pr, labs
                n += 1
                if cap and n > cap:
                    raise OverflowError('language larger than cap')

    def size(self):
        t = 0
        for bi, labs, bp, s in self.base:
            k = 1
            for l in labs:
                k *= len(self.groups.get(l, []))
            t += k
        return t

    def exact_prob(self, bi, labs, idx):
        """Exact rational product of the loaded (double) factors; base probability rescaled exactly under skip_brute."""
        rows = self.disk.base_rows[self.folder]
        e = Fraction(float(rows[bi][1]))
        if self.p_markov is not None:
            e = e / (1 - Fraction(self.p_markov))
        for l, i in zip(labs, idx):
            e *= Fraction(self.groups[l][i][0])
        return e

    def expand(self, labs, idx):
        """All strings of one non-Markov pre-terminal, as a list (with multiplicity), in *some* order."""
        parts = []     # list of lists of segment strings
        i = 0
        while i < len(labs):
            l = labs[i]
            vals = self.groups[l][idx[i]][1]
            if l[0] == 'A' and i + 1 < len(labs) and labs[i + 1][0] == 'C':
                masks = self.groups[labs[i + 1]][idx[i + 1]][1]
                parts.append([apply_mask(w, m) for w in vals for m in masks])
                i += 2
            else:
                parts.append(list(vals))
                i += 1
        return [''.join(t) for t in itertools.product(*parts)]

def apply_mask(word, mask):
    """Mask applied to the alpha word immediately before it: 'L' keeps the character, anything else upper-cases it."""
    return ''.join(ch if m == 'L' else ch.upper() for ch, m in zip(word, mask)) + word[len(mask):]

# ------------------------------------------------------------------ OMEN
class OmenModel:
    def __init__(self, d=None, spec=None, encoding='utf-8'):
        """From an Omen/ directory (independent parse) or from a spec dict."""
        if spec is not None:
            self.ngram = spec['ngram']
            ip = [(int(l), g) for l, g in spec['ip']]
            cp = [(int(l), g) for l, g in spec['cp']]
            ln = [int(x) for x in spec['ln']]
        else:
            cfg = configparser.ConfigParser(); cfg.read(os.path.join(d, 'config.txt'))
            self.ngram = cfg.getint('training_settings', 'ngram')
            encoding = cfg.get('training_settings', 'encoding')
            def rd(fn):
                out = []
                text = open(os.path.join(d, fn), 'rb').read().decode(encoding)
                for line in text.split('\n'):
                    if line == '':
                        continue
                    l, _, g = line.rstrip('\r').partition('\t')
                    out.append((int(l), g))
                return out
            ip, cp = rd('IP.level'), rd('CP.level')
            ln = [int(x) for x in open(os.path.join(d, 'LN.level')).read().split('\n') if x.strip() != '']
        self.ip = {}
        for l, g in ip:
            self.ip[g] = l
        self.cp = {}
        for l, g in cp:
            self.cp.setdefault(g[:-1], {})[g[-1]] = l
        self.ln = ln             # ln[i] = level of length i+1
        self.max_len = len(ln)

    def level(self, s):
        n = len(s)
        if n < self.ngram or n > self.max_len:
            return -1
        k = self.ngram - 1
        if s[:k] not in self.ip:
            return -1
        t = self.ln[n - 1] + self.ip[s[:k]]
        for i in range(k, n):
            c = self.cp.get(s[i - k:i], {})
            if s[i] not in c:
                return -1
            t += c[s[i]]
        return t

    def enumerate_level(self, L, cap=200000, max_level=10):
        """Brute force: every string whose three costs sum to exactly L (lengths/ips/cps above max_level are unusable)."""
        out = []
        k = self.ngram - 1
        for n in range(self.ngram, self.max_len + 1):
            lnl = self.ln[n - 1]
            if lnl > L or lnl > max_level:
                continue
            for ipg, ipl in self.ip.items():
                if lnl + ipl > L or ipl > max_level:
                    continue
                stack = [(ipg, L - lnl - ipl)]
                while stack:
                    s, rem = stack.pop()
                    if len(s) == n:
                        if rem == 0:
                            out.append(s)
                            if len(out) > cap:
                                raise OverflowError
                        continue
                    for ch, l in self.cp.get(s[len(s) - k:] if k else '', {}).items():
                        if l <= rem and l <= max_level:
                            stack.append((s + ch, rem - l))
        return out

    def all_levels(self, maxL, cap=200000):
        """One pass: Counter level -> list of strings, for all levels <= maxL."""
        res = {}
        k = self.ngram - 1
        total = 0
        for n in range(self.ngram, self.max_len + 1):
            lnl = self.ln[n - 1]
            if lnl > maxL or lnl > 10:
                continue
            for ipg, ipl in self.ip.items():
                if lnl + ipl > maxL or ipl > 10:
                    continue
                stack = [(ipg, lnl + ipl)]
                while stack:
                    s, cur = stack.pop()
                    if len(s) == n:
                        res.setdefault(cur, []).append(s)
                        total += 1
                        if total > cap:
                            raise OverflowError
                        continue
                    for ch, l in self.cp.get(s[len(s) - k:], {}).items():
                        if cur + l <= maxL and l <= 10:
                            stack.append((s + ch, cur + l))
        return res

# ------------------------------------------------------------------ C05: reference segment validator
QWERTY = [("1234567890-=", "!@#$%^&*()_+"), ("qwertyuiop[]\\", "QWERTYUIOP{}|"), ("asdfghjkl;'", 'ASDFGHJKL:"'), ("zxcvbnm,./", "ZXCVBNM<>?")]
JCUKEN = [("1234567890-=", '!"№;%:?*()_+'), ("йцукенгшщзхъ\\", "ЙЦУКЕНГШЩЗХЪ/"), ("фывапролджэ", "ФЫВАПРОЛДЖЭ"), ("ячсмитьбю", "ЯЧСМИТЬБЮ,")]
CONTEXT_STRINGS = [";p", ":p", "*0*", "#1", "No.1", "no.1", "No.", "i<3", "I<3", "<3", "Mr.", "mr.", "MR.", "MS.", "Ms.", "ms.", "Mz.", "mz.", "MZ.",
                   "St.", "st.", "Dr.", "dr."]

def _kpos(layout, ch):
    """First matching (row, column) like the tool: unshifted row r, then shifted row r, for r = 1..4."""
    for r, (plain, shifted) in enumerate(layout):
        if ch in plain:
            return (r, plain.index(ch))
        if ch in shifted:
            return (r, shifted.index(ch))
    return None

def _adjacent(a, b):
    if a is None or b is None or a == b:
        return False
    (r1, c1), (r2, c2) = a, b
    if r1 == r2:
        return abs(c1 - c2) == 1
    if r2 == r1 + 1:
        return c2 in (c1, c1 - 1)
    if r2 == r1 - 1:
        return c2 in (c1, c1 + 1)
    return False

def is_keyboard_walk(seg):
    for layout in (QWERTY, JCUKEN):
        pos = [_kpos(layout, ch) for ch in seg]
        if all(_adjacent(a, b) for a, b in zip(pos, pos[1:])):
            return True
    return False

def char_classes(seg):
    return {('a' if c.isalpha() else 'd' if c.isdigit() else 's') for c in seg}

def mw_tally(history, min_len=4, max_len=21, pretrained=(), threshold=5):
    """My own tally of the multi-word detector's training history: alpha runs (>= min_len) of the lower-cased passwords of admissible length.
    `pretrained`: the lines of a --multiword word list, learned before the passwords: a run seen there for the first time counts as seen `threshold` times."""
    t = Counter()
    for first, pw in [(True, w) for w in pretrained] + [(False, w) for w in history]:
        if len(pw) < min_len or len(pw) > max_len:
            continue
        run = ''
        for ch in pw.lower() + '\0':
            if ch.isalpha():
                run += ch
            else:
                if len(run) >= min_len:
                    t[run] = threshold if (first and t[run] == 0) else t[run] + 1
                run = ''
    return t

def lower_keep_length(s):
    """Lower-case character by character; a character whose lower() has another length (U+0130) stays as it is."""
    return ''.join(c.lower() if len(c.lower()) == 1 else c for c in s)

LABEL = re.compile(r'^(?:[ADOK][0-9]+|Y1|X1|E|W)$')

def validate_segmentation(password, sections, tally, threshold=5, min_len=4, max_len=21):
    """Returns a list of (kind, message).  Empty list = the segmentation is a lossless, soundly typed tiling."""
    bad = []
    if not sections:
        return [('empty', 'no segments at all')]
    pos = 0
    for seg, lab in sections:
        if lab is None or lab == '' or not isinstance(lab, str) or not LABEL.match(lab):
            bad.append(('label', f'segment {seg!r} has label {lab!r}')); return bad
        if seg is None or seg == '':
            bad.append(('empty', f'empty segment with label {lab}')); return bad
        piece = password[pos:pos + len(seg)]
        if (seg not in (piece.lower(), lower_keep_length(piece))) if lab == 'W' else (piece != seg):
            bad.append(('tiling', f'segment {seg!r} ({lab}) does not continue the password at offset {pos}: found {piece!r}')); return bad
        pos += len(seg)
    if pos != len(password):
        bad.append(('tiling', f'segments cover {pos} of {len(password)} characters')); return bad
    for i, (seg, lab) in enumerate(sections):
        k = lab[0]
        if k in 'ADOK' and int(lab[1:]) != len(seg):
            bad.append(('label-length', f'{lab} on segment {seg!r} of length {len(seg)}'))
        if k == 'D':
            if not all(c.isdigit() for c in seg):
                bad.append(('digit', f'{lab} segment {seg!r} has a non-digit'))
            if i + 1 < len(sections) and sections[i + 1][1][0] in 'DY':
                bad.append(('digit-maximal', f'digit segment {seg!r} is followed by {sections[i + 1][1]} {sections[i + 1][0]!r}: not a maximal digit run'))
            if i > 0 and sections[i - 1][1][0] == 'Y':
                bad.append(('digit-maximal', f'digit segment {seg!r} follows the year {sections[i - 1][0]!r}: the year was carved out of a longer digit run'))
        elif k == 'A':
            if not all(c.isalpha() for c in seg):
                bad.append(('alpha-not-letters', f'{lab} segment {seg!r} contains a non-letter'))
        elif k == 'Y':
            if not (len(seg) == 4 and all(c.isdigit() for c in seg) and seg[:2] in ('19', '20')):
                bad.append(('year', f'Y1 segment {seg!r}'))
            if i + 1 < len(sections) and sections[i + 1][1][0] == 'Y':
                bad.append(('year', f'years {seg!r} and {sections[i + 1][0]!r} are adjacent'))
        elif k == 'K':
            if len(seg) < 4 or not is_keyboard_walk(seg) or len(char_classes(seg)) < 2:
                bad.append(('keyboard', f'{lab} segment {seg!r} is not a walk of >=4 adjacent keys mixing character classes'))
        elif k == 'X':
            if seg not in CONTEXT_STRINGS:
                bad.append(('context', f'X1 segment {seg!r} is not in the fixed list'))
        elif k == 'O':
            if any(c.isalpha() or c.isdigit() for c in seg):
                bad.append(('other-has-letter-or-digit', f'{lab} segment {seg!r}'))
        elif k == 'E':
            if '@' not in seg:
                bad.append(('email', f'E segment {seg!r} without @'))
        elif k == 'W':
            if '.' not in seg:
                bad.append(('website', f'W segment {seg!r} without a dot'))
    # multi-word splits: maximal groups of consecutive A segments
    i = 0
    while i < len(sections):
        if sections[i][1][0] == 'A':
            j = i
            while j + 1 < len(sections) and sections[j + 1][1][0] == 'A':
                j += 1
            if j > i:
                # Greek sigma: lower() gives the final or the medial form depending on what follows, and the detector lower-cases whole
                # passwords when it learns but single characters when it looks words up; both spellings are the same word here
                sig = lambda w: w.replace('ς', 'σ')
                ntally = tally if not any('σ' in k or 'ς' in k for k in tally) else Counter()
                if ntally is not tally:
                    for k, v in tally.items():
                        ntally[sig(k)] += v
                tally_ = ntally
                parts = [sig(s.lower()) for s, _ in sections[i:j + 1]]
                whole = ''.join(parts)
                if not (2 * min_len <= len(whole) < max_len):
                    bad.append(('multiword', f'split {parts} of a run of length {len(whole)} (allowed 8..20)'))
                if tally_.get(whole, 0) >= threshold and 'σ' not in whole:
                    bad.append(('multiword', f'{whole!r} was seen {tally_[whole]} times (>= threshold) but was split into {parts}'))
                for p in parts:
                    if len(p) < min_len or tally_.get(p, 0) < threshold:
                        bad.append(('multiword', f'part {p!r} of split {parts} was seen only {tally_.get(p, 0)} times'))
            i = j + 1
        else:
            i += 1
    return bad

# ------------------------------------------------------------------ C19: reference reader of a training file
def valid_password(s):
    if len(s) == 0:
        return False
    for c in s:
        o = ord(c)
        if o < 0x20 or o in (0x85, 0x2028, 0x2029):
            return False
    return True

def reference_reader(data, encoding, prefixcount=False):
    """LF-only line splitting; returns (yielded sequence, num_passwords, num_encoding_errors)."""
    text = data.decode(encoding, errors='surrogateescape')
    lines = text.split('\n')
    if lines and lines[-1] == '':
        lines.pop()
    out, npw, nerr = [], 0, 0
    for line in lines:
        clean = line.rstrip('\r\n')
        n = 1
        if prefixcount:
            parts = clean.lstrip().split(' ')
            try:
                n = int(parts[0])
            except ValueError:
                continue
            clean = ' '.join(parts[1:])
        if clean.startswith('$HEX[') and clean.endswith(']'):
            try:
                clean = bytes.fromhex(clean[5:-1]).decode(encoding)
            except Exception:
                nerr += n
                continue
        try:
            clean.encode(encoding)
        except UnicodeEncodeError:
            nerr += n
            continue
        if not valid_password(clean):
            continue
        npw += n
        out.extend([clean] * n)
    return out, npw, nerr
