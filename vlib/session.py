"""In-process driver for the real pcfg_guesser.main() with a scripted stdin stand-in.

The real keypress thread, the real should_exit flag, the real _save_session / .sav / .omn code run; only
 * builtins.input is replaced by a stand-in that blocks until the monitor hands it a line (or EOF / an error),
 * time.sleep inside lib_guesser.cracking_session is a no-op,
 * PcfgGrammar.print_guess is wrapped by a recorder; the real print runs against a captured standard output, which must hold exactly the recorded guess lines,
 * PcfgQueue.next is wrapped to produce POP events.
The monitor decides *when* (in logical time: after the k-th POP / the n-th GUESS) input arrives, and then waits until the
keypress thread has consumed it, so cut positions are deterministic although two real threads are involved."""
import sys, os, io, time, threading, builtins, contextlib, configparser
from . import repo

class Stdin:
    """Stand-in for input().  feed(x): x is a str (a line), EOFError, or another exception instance to raise."""
    def __init__(self):
        self.cv = threading.Condition()
        self.script = []
        self.blocked = 0          # number of times a reader went to sleep waiting
        self.consumed = 0
        self.waiting = False      # a reader is asleep inside input() right now
        self.closed = False
    def __call__(self, *a):
        with self.cv:
            while not self.script:
                if self.closed:
                    raise EOFError
                self.blocked += 1
                self.waiting = True
                try:
                    self.cv.wait()
                finally:
                    self.waiting = False
            x = self.script.pop(0)
            self.consumed += 1
        if isinstance(x, BaseException) or (isinstance(x, type) and issubclass(x, BaseException)):
            raise x
        return x
    def feed(self, x):
        with self.cv:
            self.script.append(x)
            self.cv.notify_all()
    def close(self):
        with self.cv:
            self.closed = True
            self.cv.notify_all()

class _NoSleep:
    def __getattr__(self, n):
        return getattr(time, n)
    def sleep(self, x):
        pass

class Result:
    def __init__(self):
        self.guesses = []        # every string handed to print_guess, in order
        self.pops = []           # {'key','prob','base_prob','first_guess': index into guesses}
        self.stderr = ''
        self.stdout = ''         # what reached standard output BESIDES the guesses (must stay empty)
        self.stdout_missing = [] # guesses handed to print_guess whose line never reached standard output
        self.stdout_reordered = False
        self.exc = None
        self.saves = 0
        self.events = []         # coarse event log (POP k / SAVE / QUIT-DELIVERED ...)
    def pop_keys(self):
        return [p['key'] for p in self.pops]

_installed = {}
def _modules():
    repo.scratch()
    import pcfg_guesser
    import lib_guesser.cracking_session as cs
    import lib_guesser.pcfg_grammar as pg
    import lib_guesser.priority_queue as pq
    return pcfg_guesser, cs, pg, pq

def _quiet_excepthook(args):
    pass

def wait_until(pred, timeout=5.0):
    t0 = time.time()
    while not pred():
        if time.time() - t0 > timeout:
            return False
        time.sleep(0.0002)
    return True

def keypress_threads(cs):
    return [t for t in threading.enumerate() if getattr(t, '_target', None) is cs.keypress]

class RunawayOutput(Exception):
    pass

def run_main(argv, trigger=None, stdin=None, close_stdin_at_end=True, keep_input=False, max_guesses=None):
    """Run the real main() once.  trigger(ev, ctx) is called in the generation thread at every POP / GUESS event and may
    call ctx.deliver(...)."""
    pcfg_guesser, cs, pg, pq = _modules()
    res = Result()
    st = stdin or Stdin()
    cs.time = _NoSleep()
    threading.excepthook = _quiet_excepthook
    before = set(keypress_threads(cs))

    class Ctx:
        pcfg = None
        def kthreads(self):
            return [t for t in keypress_threads(cs) if t not in before]
        def deliver(self, x, wait=True):
            """Hand one input to the keypress thread and (by default) wait until it has fully acted on it."""
            n0, b0 = st.consumed, st.blocked
            res.events.append(('DELIVER', repr(x)))
            st.feed(x)
            if not wait:
                return True
            if x == 'q':
                ok = wait_until(lambda: self.pcfg is not None and self.pcfg.should_exit and not any(t.is_alive() for t in self.kthreads()))
            elif isinstance(x, str):
                ok = wait_until(lambda: st.consumed > n0 and (st.waiting or not any(t.is_alive() for t in self.kthreads())))
            else:
                ok = wait_until(lambda: st.consumed > n0 and not any(t.is_alive() for t in self.kthreads()))
            res.events.append(('ACTED', repr(x), ok))
            return ok
    ctx = Ctx()

    orig_print = pg.PcfgGrammar.print_guess
    orig_next = pq.PcfgQueue.next
    orig_save = cs.CrackingSession._save_session
    def rec_print(self, g):
        ctx.pcfg = self
        # a tool may hand several guesses to one call (a block joined by newlines): what counts is the lines, not how many calls carried them
        parts = g.split('\n') if isinstance(g, str) and '\n' in g else [g]
        n0 = len(res.guesses)
        res.guesses.extend(parts)
        res.debug = bool(getattr(self, 'debug', False))
        orig_print(self, g)      # the real print statement runs against the captured standard output
        if len(res.guesses) > (max_guesses if max_guesses is not None else 20000000):
            raise RunawayOutput(f'more than {max_guesses if max_guesses is not None else 20000000} guesses: the run does not stop')
        if trigger:
            for k, part in enumerate(parts, n0 + 1):
                trigger(('GUESS', k, part, len(res.pops) - 1, k - (res.pops[-1]['first_guess'] if res.pops else 0)), ctx)
    def rec_next(self):
        item = orig_next(self)
        ctx.pcfg = self.pcfg
        if item is not None:
            res.pops.append({'key': (tuple(x[0] for x in item['pt']), tuple(x[1] for x in item['pt'])), 'prob': item['prob'],
                             'base_prob': item['base_prob'], 'first_guess': len(res.guesses)})
            if trigger:
                trigger(('POP', len(res.pops), item), ctx)
        return item
    orig_create = pg.PcfgGrammar.create_guesses
    def rec_create(self, *a, **k):
        # after the generation loop has looked at the quit flag for this pre-terminal, before its first guess
        if trigger:
            trigger(('CREATE', len(res.pops)), ctx)
        return orig_create(self, *a, **k)
    def rec_save(self):
        res.saves += 1
        res.events.append(('SAVE', len(res.pops), len(res.guesses)))
        return orig_save(self)
    pg.PcfgGrammar.print_guess = rec_print
    pq.PcfgQueue.next = rec_next
    orig_qinit = pq.PcfgQueue.__init__
    def rec_qinit(self, *a, **k):
        # the same meeting point before the queue is built / restored: a helper thread that is already running at this moment sees a request that was typed ahead
        if st.script and ctx.kthreads():
            wait_until(lambda: not st.script and (st.waiting or not any(t.is_alive() for t in ctx.kthreads())), timeout=1.0)
            res.events.append(('QUEUE-BUILD-WITH-PENDING-REQUEST', len(res.pops)))
        orig_qinit(self, *a, **k)
        # the queue is ready (built or restored).  A request that was typed before the program looked - and a helper thread that is already running - get the
        # time to meet here, whatever the speed of the machine: a tool that starts its keyboard thread before the queue is ready sees the request at this point
        if st.script and ctx.kthreads():
            wait_until(lambda: not st.script and (st.waiting or not any(t.is_alive() for t in ctx.kthreads())), timeout=1.0)
            res.events.append(('QUEUE-READY-WITH-PENDING-REQUEST', len(res.pops)))
    pq.PcfgQueue.__init__ = rec_qinit
    pg.PcfgGrammar.create_guesses = rec_create
    cs.CrackingSession._save_session = rec_save
    old_input, old_argv = builtins.input, sys.argv
    old_exit = os._exit
    def _exit(code=0):
        # a tool that ends the process the hard way must not take the harness with it: in-process it is an ordinary exit
        raise SystemExit(code)
    os._exit = _exit
    builtins.input = st
    sys.argv = ['pcfg_guesser.py'] + list(argv)
    # real text streams over byte buffers (encoding, errors, .buffer, reconfigure() ... as a process has them): a tool that re-wraps or re-configures its
    # standard streams keeps writing into the same byte buffers
    class _KeepOpen(io.BytesIO):
        def close(self):
            pass                        # survives the garbage collection of a wrapper the tool put around it
    class _Cap(io.TextIOWrapper):
        def __init__(self):
            self._bytes = _KeepOpen()
            super().__init__(self._bytes, encoding='utf-8', errors='strict', newline='\n', write_through=True)
        def getvalue(self):
            try:
                self.flush()
            except Exception:
                pass
            return self._bytes.getvalue().decode('utf-8', 'replace')
        def close(self):
            pass                        # a wrapper the tool drops must not close the capture
    err, out = _Cap(), _Cap()
    try:
        with contextlib.redirect_stderr(err), contextlib.redirect_stdout(out):
            try:
                pcfg_guesser.main()
            except SystemExit as e:
                res.exc = e
            except BaseException as e:
                from .evidence import CaseTimeout
                if isinstance(e, (CaseTimeout, KeyboardInterrupt)) or (isinstance(e, RunawayOutput) and max_guesses is None):
                    raise            # watchdogs of the harness: inconclusive, never a verdict (an explicit max_guesses makes it a verdict)
                res.exc = e
    finally:
        pg.PcfgGrammar.print_guess = orig_print
        pq.PcfgQueue.next = orig_next
        pq.PcfgQueue.__init__ = orig_qinit
        pg.PcfgGrammar.create_guesses = orig_create
        cs.CrackingSession._save_session = orig_save
        sys.argv = old_argv
        os._exit = old_exit
        if close_stdin_at_end:
            st.close()
            for t in ctx.kthreads():
                t.join(2)
        if not keep_input:
            builtins.input = old_input
        else:
            res.restore_input = lambda: setattr(builtins, 'input', old_input)
    res.stderr, raw = err.getvalue(), out.getvalue()
    exp = ''.join(g + '\n' for g in res.guesses)
    if getattr(res, 'debug', False) or res.exc is not None and isinstance(res.exc, RunawayOutput):
        res.stdout = raw
    elif raw != exp:
        # C09: standard output is exactly the guess stream.  Separate what is there besides the guesses from the guesses that never arrived.
        from collections import Counter
        got, want = Counter(raw.split('\n')[:-1] if raw.endswith('\n') else raw.split('\n')), Counter(res.guesses)
        extra, missing = got - want, want - got
        res.stdout = '\n'.join(extra.elements())
        res.stdout_missing = list(missing.elements())
        if not extra and not missing:
            res.stdout_reordered = True
            res.stdout = '(the guess lines reached standard output in another order than print_guess was called)'
    return res

def session_files(name):
    s = repo.scratch()
    return os.path.join(s, name + '.sav'), os.path.join(s, name + '.omn')

def drop_session(name):
    for p in session_files(name):
        try:
            os.remove(p)
        except FileNotFoundError:
            pass

def read_sav(name):
    c = configparser.ConfigParser()
    c.read(session_files(name)[0])
    return c

_sess = [0]
def new_session_name(tag='s'):
    _sess[0] += 1
    return f'{tag}_{os.getpid()}_{_sess[0]}'
