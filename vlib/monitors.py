"""Monitors installed on the real code from outside (no source hooks): guess-stream recorder, queue invariants."""
import io, sys, contextlib, copy, heapq, math
from . import repo

def quiet():
    return contextlib.redirect_stderr(io.StringIO())

def load_pcfg(path, name='x', skip_brute=False, skip_case=False, folder='Grammar', save_file=None):
    repo.scratch()
    from lib_guesser.pcfg_grammar import PcfgGrammar
    err = io.StringIO(); out = io.StringIO()
    with contextlib.redirect_stderr(err), contextlib.redirect_stdout(out):
        pcfg = PcfgGrammar(name, path, '4.7', save_file, skip_brute=skip_brute, skip_case=skip_case,
                           base_structure_folder=folder)
    pcfg._verif_load_stderr = err.getvalue()
    pcfg._verif_load_stdout = out.getvalue()
    return pcfg

def pt_key(pt):
    return (tuple(x[0] for x in pt), tuple(x[1] for x in pt))

class QueueMonitor:
    """Wraps a real PcfgQueue: records every POP, asserts the online invariants, optionally the frontier invariant."""
    def __init__(self, pcfg, queue, frontier=False, on_violation=None):
        self.pcfg, self.q = pcfg, queue
        self.pops = []
        self.frontier = frontier
        self.emitted = set()
        self.problems = []
        self.checked_frontier = 0

    def next(self):
        item = self.q.next()
        if item is None:
            return None
        k = len(self.pops)
        key = pt_key(item['pt'])
        # 'order' is the property itself (C01); the other kinds look inside the queue object (its heap list, its max_probability field) and are
        # diagnostics: a check reports them only together with an observable effect, so another correct queue implementation raises no alarm
        heap = getattr(self.q, 'p_queue', None)
        rec = {'k': k, 'key': key, 'prob': item['prob'], 'base_prob': item['base_prob'], 'heap': len(heap) if heap is not None else -1}
        if self.pops and not (item['prob'] <= self.pops[-1]['prob']):
            self.problems.append(('order', k, f"pop {k} prob {item['prob']!r} > previous {self.pops[-1]['prob']!r}"))
        try:
            if getattr(self.q, 'max_probability', item['prob']) != item['prob']:
                self.problems.append(('maxprob', k, f"queue.max_probability {self.q.max_probability!r} != popped prob {item['prob']!r}"))
            for qi in heap or []:
                if qi.pt_item['prob'] > item['prob']:
                    self.problems.append(('queued-more-probable', k, f"queued {pt_key(qi.pt_item['pt'])} prob {qi.pt_item['prob']!r} > just popped {item['prob']!r}"))
                    break
        except (AttributeError, KeyError, TypeError):
            heap = None
        self.pops.append(rec)
        if self.frontier and heap is not None:
            self.emitted.add(key + (item['base_prob'],))
            self._frontier(k)
        return item

    def _parents(self, key, bp):
        labs, idx = key
        for pos, i in enumerate(idx):
            if i > 0:
                yield (labs, idx[:pos] + (i - 1,) + idx[pos + 1:], bp)

    def _children(self, key, bp):
        labs, idx = key
        for pos, i in enumerate(idx):
            if i + 1 < len(self.pcfg.grammar[labs[pos]]):
                yield (labs, idx[:pos] + (i + 1,) + idx[pos + 1:], bp)

    def _frontier(self, k):
        self.checked_frontier += 1
        try:
            queued = [pt_key(qi.pt_item['pt']) + (qi.pt_item['base_prob'],) for qi in self.q.p_queue]
        except (AttributeError, KeyError, TypeError):
            return
        qs = set(queued)
        if len(qs) != len(queued):
            self.problems.append(('dup-in-queue', k, 'a pre-terminal is queued twice'))
        both = qs & self.emitted
        if both:
            self.problems.append(('emitted-and-queued', k, f'{sorted(both)[:2]}'))
        for n in qs:
            ps = list(self._parents((n[0], n[1]), n[2]))
            if ps and not any(p in self.emitted for p in ps):
                self.problems.append(('orphan-in-queue', k, f'{n} queued but none of its parents was emitted'))
                break
        last = self.pops[-1]
        lk = last['key'] + (last['base_prob'],)
        for c in self._children(last['key'], last['base_prob']):
            if c in self.emitted or c in qs:
                continue
            if all(p in self.emitted for p in self._parents((c[0], c[1]), c[2])):
                self.problems.append(('lost-child', k, f'{c}: all parents emitted but it is neither emitted nor queued'))
                break

def record_guesses(pcfg, pt, limit=None):
    """Run the real create_guesses for one pre-terminal with print_guess replaced by a recorder."""
    lines = []
    pcfg.print_guess = lines.append
    try:
        n = pcfg.create_guesses(pt, limit=limit) if limit is not None else pcfg.create_guesses(pt)
    finally:
        try:
            del pcfg.print_guess
        except AttributeError:
            pass
    return lines, n

def ulp_tol(exact, nfactors):
    """Allowed |float - exact| for a product of nfactors doubles in [0,1] computed in any order."""
    return float(exact) * (nfactors + 3) * 2.0 ** -52 + (nfactors + 3) * 2.0 ** -1074
