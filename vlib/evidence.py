"""Run bookkeeping: counters measured by the monitors, three-valued verdict, evidence + replay files."""
import os, sys, json, time, hashlib, signal, contextlib, traceback
from collections import Counter
from . import findings

VERIF = os.path.dirname(os.path.dirname(os.path.abspath(__file__)))

def h(obj):
    return hashlib.sha1(json.dumps(obj, sort_keys=True, default=repr, ensure_ascii=True).encode()).hexdigest()[:16]

def _rss_mb():
    try:
        with open('/proc/self/statm') as f:
            return int(f.read().split()[1]) * os.sysconf('SC_PAGE_SIZE') >> 20
    except Exception:
        return -1

class CaseTimeout(Exception):
    pass

@contextlib.contextmanager
def timebox(seconds):
    """Per-case wall-clock watchdog (main thread only).  Firing is *inconclusive*, never a violation."""
    def _h(sig, frm):
        raise CaseTimeout()
    old = signal.signal(signal.SIGALRM, _h)
    signal.setitimer(signal.ITIMER_REAL, seconds)
    try:
        yield
    finally:
        signal.setitimer(signal.ITIMER_REAL, 0)
        signal.signal(signal.SIGALRM, old)

class Run:
    MAX_SAMPLES = 6
    def __init__(self, prop, tier, seed, level, rule, shard=(0, 1)):
        self.prop, self.tier, self.seed, self.level, self.rule = prop, tier, seed, level, rule
        self.shard = shard
        self.evals = 0
        self.distinct = set()
        self.samples = []
        self.events = Counter()
        self.extra = {}
        self.sets = {}
        self.violations = []
        self.inconclusive = 0
        self.inconclusive_why = Counter()
        self.assumptions = []
        self.exhaustive = None
        self.min_distinct = 2
        self.required_events = []
        self.t0 = time.time()

    # ---- recording ----
    def case(self, nontrivial_key=None):
        self.evals += 1
        if nontrivial_key is not None:
            self.distinct.add(nontrivial_key if isinstance(nontrivial_key, str) else h(nontrivial_key))
    def nontrivial(self, key):
        self.distinct.add(key if isinstance(key, str) else h(key))
    def sample(self, obj, force=False):
        if force:
            self.samples.insert(0, obj)
        elif len(self.samples) < self.MAX_SAMPLES:
            self.samples.append(obj)
    def ev(self, name, n=1):
        self.events[name] += n
    def add_to_set(self, name, key):
        self.sets.setdefault(name, set()).add(key if isinstance(key, (str, int)) else h(key))
    def inconc(self, why):
        self.inconclusive += 1
        self.inconclusive_why[why] += 1
    def violation(self, what, case, observed=None, expected=None, mech=None):
        """mech: mechanism key computed by the check's classifier from the *input* (None = unclassified)."""
        self.violations.append({'what': what, 'mech': mech, 'case': case,
                                'observed': observed, 'expected': expected})
        if len(self.violations) > 200:      # keep partials small; the count is kept in events
            self.violations.pop()
        self.ev('violations_raw')

    def guard(self, case, fn, *args, seconds=120, **kw):
        """Run one case under the watchdog.  An exception escaping from the code under test (or the harness) is a violation
        with its traceback as witness - it must never look like 'held'; a watchdog firing is inconclusive."""
        dbg = os.environ.get('VERIF_DEBUG_MEM')
        if dbg:
            r0, t0 = _rss_mb(), time.time()
        try:
            with timebox(seconds):
                return fn(self, case, *args, **kw)
        except CaseTimeout:
            self.inconc('case watchdog')
        except Exception as e:
            if type(e).__name__ == 'RunawayOutput':
                self.inconc('stream above the harness cap')
                return
            tb = traceback.format_exc()
            self.violation(f'unexpected {type(e).__name__} escaped while running the case: {e!s:.200}', case, observed=tb[-2500:])
        finally:
            if dbg and (_rss_mb() - r0 > int(dbg) or time.time() - t0 > 10):
                sys.stderr.write(f'[mem] {getattr(fn, "__name__", fn)} rss {r0} -> {_rss_mb()} MB in {time.time() - t0:.1f}s case={str(case)[:300]}\n')

    # ---- (de)serialisation for shard partials ----
    def to_partial(self):
        return {'evals': self.evals, 'distinct': sorted(self.distinct), 'samples': self.samples,
                'events': dict(self.events), 'extra': self.extra, 'sets': {k: sorted(map(str, v)) for k, v in self.sets.items()},
                'violations': self.violations, 'inconclusive': self.inconclusive,
                'inconclusive_why': dict(self.inconclusive_why), 'assumptions': self.assumptions,
                'exhaustive': self.exhaustive, 'min_distinct': self.min_distinct,
                'required_events': self.required_events}
    def merge(self, p):
        self.evals += p['evals']
        self.distinct.update(p['distinct'])
        for s in p['samples']:
            if len(self.samples) < self.MAX_SAMPLES * 2:
                self.samples.append(s)
        self.events.update(p['events'])
        for k, v in p['extra'].items():
            if isinstance(v, (int, float)) and not isinstance(v, bool):
                self.extra[k] = self.extra.get(k, 0) + v
            elif isinstance(v, list):
                self.extra[k] = (self.extra.get(k, []) + v)[:50]
            else:
                self.extra[k] = v
        for k, v in p['sets'].items():
            self.sets.setdefault(k, set()).update(v)
        self.violations.extend(p['violations'])
        self.inconclusive += p['inconclusive']
        self.inconclusive_why.update(p['inconclusive_why'])
        for a in p['assumptions']:
            if a not in self.assumptions:
                self.assumptions.append(a)
        if p['exhaustive'] is not None:
            self.exhaustive = p['exhaustive'] if self.exhaustive is None else (self.exhaustive and p['exhaustive'])
        self.min_distinct = max(self.min_distinct, p['min_distinct'])
        for e in p['required_events']:
            if e not in self.required_events:
                self.required_events.append(e)

    # ---- verdict ----
    def finish(self):
        """Write evidence, print verdict lines, return the process exit status (0 held / 1 violation / 2 inconclusive)."""
        known, unlisted = {}, []
        for v in self.violations:
            f = findings.lookup(self.prop, v['mech'])
            if f is not None:
                known.setdefault(v['mech'], [f, 0])
                known[v['mech']][1] += 1
            else:
                unlisted.append(v)
        wall = time.time() - self.t0
        cov = {'evaluations': self.evals, 'distinct_nontrivial': len(self.distinct), 'rule': self.rule,
               'samples': [x if isinstance(x, str) else json.dumps(x, ensure_ascii=True, default=repr)
                           for x in self.samples[:self.MAX_SAMPLES * 2]], 'events': dict(self.events),
               'inconclusive_cases': self.inconclusive, 'inconclusive_reasons': dict(self.inconclusive_why),
               'known_findings_hit': {k: n for k, (f, n) in known.items()}}
        for k, v in self.sets.items():
            cov[k] = len(v)
        cov.update(self.extra)
        if self.exhaustive is not None:
            cov['exhaustive'] = bool(self.exhaustive)
        ev = {'property_id': self.prop, 'tier': self.tier, 'seed': self.seed, 'level': self.level,
              'coverage': cov, 'assumptions': self.assumptions, 'wall_s': round(wall, 2),
              'violations': len(unlisted), 'repo': os.environ.get('VERIF_REPO', '/repo')}
        evdir = os.environ.get('VERIF_EVIDENCE_DIR', os.path.join(VERIF, 'evidence'))
        os.makedirs(evdir, exist_ok=True)
        with open(os.path.join(evdir, f'{self.prop}.json'), 'w') as f:
            json.dump(ev, f, indent=1, ensure_ascii=True, default=repr)
        for mech, (f, n) in sorted(known.items()):
            print(f"KNOWN-FINDING: property={self.prop} {f['what']} [{mech}; hit {n}x this run]")
        status = 0
        if unlisted:
            rdir = os.environ.get('VERIF_REPLAY_DIR', os.path.join(VERIF, 'replays'))
            os.makedirs(rdir, exist_ok=True)
            seen = set()
            for i, v in enumerate(unlisted):
                k = (v['what'], v['mech'])
                if k in seen and i >= 3:
                    continue
                seen.add(k)
                path = os.path.join(rdir, f"{self.prop}_{self.tier}_{self.seed}_{len(seen)}_{i}.json")
                with open(path, 'w') as f:
                    json.dump({'property': self.prop, 'tier': self.tier, 'seed': self.seed, **v}, f, indent=1,
                              ensure_ascii=True, default=repr)
                print(f"VIOLATION property={self.prop} replay={path}")
                print(f"  what: {v['what']}" + (f" (mechanism {v['mech']})" if v['mech'] else ''))
                if len(seen) >= 8:
                    break
            status = 1
        else:
            missing = [e for e in self.required_events if self.events.get(e, 0) == 0]
            if self.evals == 0 or len(self.distinct) < self.min_distinct or missing:
                print(f"INCONCLUSIVE property={self.prop} evaluations={self.evals} distinct_nontrivial={len(self.distinct)} "
                      f"(minimum {self.min_distinct}) monitors_never_reached={missing}")
                status = 2
        print(f"[{self.prop} {self.tier} seed={self.seed}] evaluations={self.evals} distinct_nontrivial={len(self.distinct)} "
              f"events={dict(self.events)} inconclusive={self.inconclusive} unlisted_violations={len(unlisted)} "
              f"known={ {k: n for k, (f, n) in known.items()} } wall={wall:.1f}s -> exit {status}")
        return status
