"""Driver: runs one property's check, optionally sharded over worker subprocesses, merges partials, verdict."""
import os, sys, json, argparse, subprocess, importlib, random, time, tempfile, traceback, faulthandler
HERE = os.path.dirname(os.path.abspath(__file__))
VERIF = os.path.dirname(HERE)
sys.path.insert(0, VERIF)
deps = os.path.join(VERIF, '.deps')

def ensure_deps():
    """icontract lives in the git-ignored .deps/ (installed offline from the wheelhouse by setup_cmd or on demand)."""
    if not os.path.isdir(os.path.join(deps, 'icontract')):
        subprocess.run([sys.executable, '-m', 'pip', 'install', '-q', '--no-index', '--find-links', '/opt/veriftools/wheels',
                        '--target', deps, 'icontract'], stdout=subprocess.DEVNULL, stderr=subprocess.DEVNULL)
    if deps not in sys.path:
        sys.path.append(deps)

def stable_seed(*parts):
    import hashlib
    return int(hashlib.sha1('/'.join(map(str, parts)).encode()).hexdigest()[:12], 16)

def main():
    ap = argparse.ArgumentParser()
    ap.add_argument('prop')
    ap.add_argument('--tier', default=os.environ.get('VERIF_TIER', 'quick'), choices=['quick', 'thorough'])
    ap.add_argument('--seed', type=int, default=int(os.environ.get('VERIF_SEED', '0') or 0))
    ap.add_argument('--replay')
    ap.add_argument('--shard')          # i/n  (worker mode)
    ap.add_argument('--out')
    ap.add_argument('--shards', type=int)
    a = ap.parse_args()
    os.environ.setdefault('PYTHONHASHSEED', '0')
    # the check's own standard input is /dev/null: code under test that reads the real descriptor 0 in-process (instead of the input() stand-in) gets EOF
    # at once instead of blocking on whatever the caller's stdin happens to be
    try:
        dn = os.open(os.devnull, os.O_RDONLY); os.dup2(dn, 0); os.close(dn)
    except OSError:
        pass
    ensure_deps()
    from vlib import evidence, repo
    mod = importlib.import_module('vlib.props.' + a.prop.lower())
    faulthandler.enable()

    if a.replay:
        case = json.load(open(a.replay))
        run = evidence.Run(a.prop, a.tier, a.seed, mod.LEVEL, mod.RULE)
        run.min_distinct = 0
        repo.scratch()
        mod.replay(run, case)
        for v in run.violations:
            print('REPRODUCED:', v['what'], '| mech:', v['mech'])
            print('  observed:', json.dumps(v['observed'], default=repr, ensure_ascii=True)[:1500])
            print('  expected:', json.dumps(v['expected'], default=repr, ensure_ascii=True)[:1500])
        print('replay: %d violation(s)' % len(run.violations))
        sys.exit(1 if run.violations else 0)

    if a.shard:
        i, n = map(int, a.shard.split('/'))
        # a runaway (a generator that never stops and keeps everything, in the tool or in a reference model fed with a broken ruleset) gets a MemoryError
        # in its own process instead of exhausting the machine
        try:
            import resource
            lim = int(os.environ.get('VERIF_WORKER_MEM_GB', '10')) << 30
            resource.setrlimit(resource.RLIMIT_AS, (lim, lim))
        except Exception:
            pass
        run = evidence.Run(a.prop, a.tier, a.seed, mod.LEVEL, mod.RULE, shard=(i, n))
        repo.scratch()
        rng = random.Random(stable_seed(a.seed, a.prop, a.tier, i))
        try:
            mod.run(run, rng)
        except BaseException as e:       # a crashing harness must never look like 'held'
            run.violations.append({'what': 'HARNESS-ERROR ' + repr(e), 'mech': None, 'case': {'shard': a.shard},
                                   'observed': traceback.format_exc()[-3000:], 'expected': None})
        with open(a.out, 'w') as f:
            json.dump(run.to_partial(), f, default=repr)
        return

    nshards = a.shards or getattr(mod, 'SHARDS', {}).get(a.tier, 1)
    nshards = max(1, min(nshards, os.cpu_count() or 1))
    run = evidence.Run(a.prop, a.tier, a.seed, mod.LEVEL, mod.RULE)
    scratch = repo.scratch()
    if nshards == 1:
        rng = random.Random(stable_seed(a.seed, a.prop, a.tier, 0))
        mod.run(run, rng)
    else:
        tmpd = tempfile.mkdtemp(prefix='pcfgverif_parts_')
        procs = []
        limit = getattr(mod, 'SHARD_TIMEOUT', {}).get(a.tier, 3600)
        for i in range(nshards):
            out = os.path.join(tmpd, f'p{i}.json')
            cmd = [sys.executable, '-B', '-W', 'ignore::SyntaxWarning', os.path.abspath(__file__), a.prop, '--tier', a.tier, '--seed', str(a.seed),
                   '--shard', f'{i}/{nshards}', '--out', out]
            procs.append((i, out, subprocess.Popen(cmd, env=dict(os.environ, VERIF_SCRATCH=scratch))))
        deadline = time.time() + limit
        for i, out, p in procs:
            try:
                p.wait(timeout=max(1, deadline - time.time()))
            except subprocess.TimeoutExpired:
                p.kill(); p.wait()
                run.inconc(f'shard {i} hit the {limit}s watchdog')
                continue
            if os.path.exists(out):
                run.merge(json.load(open(out)))
            else:
                run.violations.append({'what': f'HARNESS-ERROR shard {i} died with status {p.returncode}', 'mech': None,
                                       'case': {'shard': i}, 'observed': None, 'expected': None})
        import shutil
        shutil.rmtree(tmpd, ignore_errors=True)
    status = run.finish()
    repo.cleanup()
    sys.exit(status)

if __name__ == '__main__':
    main()
