"""Controlled scheduler for the two real threads of a guessing session, built on sys.monitoring LINE events.

Every LINE event of the watched functions is a yield point.  A schedule is (action, p1, k_hold, p2):
  * the generation thread runs alone up to its p1-th yield point;
  * there the monitor hands `action` to the real keypress thread (through the input() stand-in) and the generation thread waits
    until the keypress thread has either finished acting (blocked in input() again / returned) or reached its k_hold-th
    own yield point after the delivery, where it is parked;
  * the generation thread continues to its p2-th yield point, where the parked keypress thread is released and runs to completion
    (if p2 is never reached it is released when main() returns).
Only real preemption points are used (statement boundaries of two genuinely concurrent threads).  The interleaving is a pure function
of the schedule; the hash of the merged (thread, function, line) trace identifies it."""
import sys, time, threading, hashlib, inspect
from . import session

mon = sys.monitoring
TOOL = 3

class ExplodingStr(str):
    """An input line whose comparison raises: drives keypress() into its bare `except: return`."""
    def __eq__(self, other):
        raise RuntimeError('lost sys.stdin')
    __hash__ = str.__hash__

def watched_codes():
    pcfg_guesser, cs, pg, pq = session._modules()
    import lib_guesser.status_report as sr
    m = [cs.CrackingSession.run, cs.CrackingSession._save_session, pg.PcfgGrammar.omen_generate_guesses,
         pg.PcfgGrammar._recursive_guesses, pg.PcfgGrammar.restore_omen]
    k = [cs.keypress, sr.StatusReport.print_status, pg.PcfgGrammar.get_status] + ([sr.StatusReport.print_help] if hasattr(sr.StatusReport, 'print_help') else [])
    return [f.__code__ for f in m], [f.__code__ for f in k], cs

class Step:
    """One delivery: at the generation thread's p-th yield point hand `action` to the keypress thread.
    hold: None (let it finish), an int n (park it at its n-th own yield point after the delivery), 'in:<function>' (park it at its first statement inside
    that watched function, e.g. 'in:print_help') or 'after_flag' (park it right after `pcfg.should_exit = True`, i.e. flag set but thread still alive); release: generation-thread yield point at which a parked thread continues."""
    def __init__(self, p, action, hold=None, release=None):
        self.p, self.action, self.hold, self.release = p, action, hold, release
    def as_list(self):
        a = self.action
        return [self.p, a.__name__ if isinstance(a, type) else ('ERR' if isinstance(a, ExplodingStr) else repr(a)), self.hold, self.release]

def flag_line(cs):
    src, start = inspect.getsourcelines(cs.keypress)
    for i, l in enumerate(src):
        if 'should_exit = True' in l:
            return start + i
    return None

class VirtualClock:
    """Stand-in for the time module inside lib_guesser.status_report: perf_counter() jumps ahead by `offset` seconds once set,
    so status reports of 'long-running' sessions can be exercised without waiting."""
    def __init__(self):
        self.offset = 0.0
    def __getattr__(self, n):
        return getattr(time, n)
    def perf_counter(self):
        return time.perf_counter() + self.offset

class Scheduler:
    def __init__(self, st, steps=None, age=None):
        self.mcodes, self.kcodes, self.cs = watched_codes()
        self.st = st
        self.steps = sorted(steps or [], key=lambda x: x.p)
        self.next_step = 0
        self.cur = None               # step whose keypress activity is in progress / parked
        self.m_idx = 0
        self.k_idx_after = None
        self.trace = hashlib.sha1()
        self.n_events = 0
        self.k_parked = threading.Event()
        self.k_release = threading.Event()
        self.sites = set()
        self.deliveries = []          # (m_idx, function, line) of each delivery
        self.problems = []
        self.done = False
        self.k_seen = False
        self.main_ident = threading.get_ident()
        self.flag_line = flag_line(self.cs)
        self.before = set(session.keypress_threads(self.cs))
        self.counters = {'pops': 0, 'guesses': 0}
        self.age = age
        self.clock = VirtualClock()
        self._b0 = self._c0 = 0

    def install(self):
        try:
            mon.use_tool_id(TOOL, 'pcfg-verif-sched')
        except ValueError:
            pass
        for c in self.mcodes + self.kcodes:
            mon.set_local_events(TOOL, c, mon.events.LINE)
        mon.register_callback(TOOL, mon.events.LINE, self._cb)

    def uninstall(self):
        for c in self.mcodes + self.kcodes:
            mon.set_local_events(TOOL, c, 0)
        mon.register_callback(TOOL, mon.events.LINE, None)
        try:
            mon.free_tool_id(TOOL)
        except Exception:
            pass

    def kthreads(self):
        return [t for t in session.keypress_threads(self.cs) if t not in self.before]

    def _k_alive(self):
        return any(t.is_alive() for t in self.kthreads())

    def _blocked_again(self):
        return self.st.waiting and self.st.consumed > self._c0

    def _k_quiet(self):
        return self.k_parked.is_set() or not self._k_alive() or self._blocked_again()

    def _cb(self, code, line):
        is_main = threading.get_ident() == self.main_ident
        self.n_events += 1
        self.trace.update(f"{'M' if is_main else 'K'}:{code.co_name}:{line};".encode())
        self.sites.add(('M' if is_main else 'K', code.co_name, line))
        if self.done:
            return
        if is_main:
            self.m_idx += 1
            if self.cur is not None and self.k_parked.is_set() and self.cur.release is not None and self.m_idx >= self.cur.release:
                self._release()
            while self.next_step < len(self.steps) and self.m_idx >= self.steps[self.next_step].p:
                if self.k_parked.is_set():
                    self._release()
                step = self.steps[self.next_step]
                self.next_step += 1
                self._deliver(step, code, line)
        else:
            self.k_seen = True
            cur = self.cur
            if cur is not None and self.k_idx_after is not None and not self.k_parked.is_set():
                self.k_idx_after += 1
                hit = (isinstance(cur.hold, int) and self.k_idx_after == cur.hold) or \
                      (isinstance(cur.hold, str) and cur.hold.startswith('in:') and code.co_name == cur.hold[3:]) or \
                      (cur.hold == 'after_flag' and code.co_name == 'keypress' and self.flag_line is not None and line > self.flag_line
                       and getattr(self, '_saw_flag_line', False))
                if cur.hold == 'after_flag' and code.co_name == 'keypress' and line == self.flag_line:
                    self._saw_flag_line = True
                if hit and not getattr(cur, '_held', False):
                    cur._held = True
                    self.trace.update(b'PARK;')
                    self.k_release.clear()
                    self.k_parked.set()
                    while not self.done and not self.k_release.wait(0.02):
                        pass

    def _deliver(self, step, code, line):
        if not self._k_alive():
            if self.k_seen:
                self.trace.update(b'DELIVER-TO-DEAD;')
                return
            # the helper thread has not been started yet: the line sits in the stdin buffer until it first calls input()
            self.cur = step
            self._saw_flag_line = False
            self.deliveries.append((self.m_idx, code.co_name, line))
            self.trace.update(f'BUFFERED@{code.co_name}:{line};'.encode())
            self._b0, self._c0 = self.st.blocked, self.st.consumed
            self.k_idx_after = 0
            self.st.feed(step.action)
            return
        session.wait_until(lambda: self.st.waiting or not self._k_alive(), 5)
        self.cur = step
        self._saw_flag_line = False
        if self.age:
            self.clock.offset = float(self.age)       # the session has 'been running' that long when the request arrives
        self.deliveries.append((self.m_idx, code.co_name, line))
        self.trace.update(f'DELIVER@{code.co_name}:{line};'.encode())
        self._b0, self._c0 = self.st.blocked, self.st.consumed
        self.k_idx_after = 0
        self.st.feed(step.action)
        if not session.wait_until(self._k_quiet, 5):
            self.problems.append('keypress thread neither finished nor parked within the watchdog')
        step.snapshot = dict(self.counters)         # generation progress at the moment the helper thread had acted / parked

    def _release(self):
        self.trace.update(b'RELEASE;')
        self.k_parked.clear()
        self.k_release.set()
        session.wait_until(lambda: not self._k_alive() or self._blocked_again(), 5)

    def finish(self):
        self.done = True
        self.k_parked.clear()
        self.k_release.set()

    def digest(self):
        return self.trace.hexdigest()[:16]

def run_scheduled(argv, schedule=None, trigger=None, age=None):
    # schedule: list of Step; age: virtual seconds the session has been running when the first request is delivered
    """One real main() run under the scheduler.  Returns (Result, Scheduler)."""
    st = session.Stdin()
    import io, contextlib
    sch = Scheduler(st, schedule, age=age)
    sch.install()
    import lib_guesser.status_report as _sr
    _real_time = _sr.time
    _sr.time = sch.clock
    late = io.StringIO()
    with contextlib.redirect_stderr(late):      # a released helper thread may still print its status after main() returned
        try:
            res = None
            def trig(ev, ctx):
                if ev[0] in ('POP', 'GUESS'):
                    sch.counters['pops' if ev[0] == 'POP' else 'guesses'] += 1
                if trigger:
                    trigger(ev, ctx)
            res = session.run_main(argv, trigger=trig, stdin=st, close_stdin_at_end=False, keep_input=True)
        finally:
            sch.finish()
            st.close()
            for t in sch.kthreads():
                t.join(2)
                if t.is_alive():
                    sch.problems.append('helper thread still alive after stdin was closed')
            sch.uninstall()
            _sr.time = _real_time
            if res is not None:
                res.restore_input()
    return res, sch
