"""Process-boundary monitor: run one of the real CLIs from the scratch copy under a chosen stdin condition, capture stdout/stderr bytes."""
import os, sys, subprocess, threading, pty
from . import repo

def run_cli(script, args, stdin_mode='open', data=b'', timeout=180, env=None, hashseed='0', max_out=64 << 20):
    """stdin_mode: open (pipe kept open until the process ends) | eof (pipe closed at once) | lines (write data, then close) |
    lines_open (write data, keep open) | devnull | closed (fd 0 closed in the child) | pty (a terminal nobody types on)."""
    s = repo.scratch()
    cmd = [sys.executable, '-B', '-W', 'ignore', os.path.join(s, script)] + list(args)
    e = dict(os.environ, PYTHONHASHSEED=str(hashseed), PYTHONIOENCODING='utf-8')
    e.pop('VERIF_SCRATCH', None)
    e.pop('PYTHONUNBUFFERED', None)        # the tools run with the interpreter's default (block-buffered) stdout when it is a pipe or a file
    if env:
        e.update(env)
    kw = dict(stdout=subprocess.PIPE, stderr=subprocess.PIPE, cwd=s, env=e)
    master = slave = None
    pre = None
    if stdin_mode in ('open', 'eof', 'lines', 'lines_open', 'timed'):
        kw['stdin'] = subprocess.PIPE
    elif stdin_mode == 'devnull':
        kw['stdin'] = subprocess.DEVNULL
    elif stdin_mode == 'closed':
        pre = lambda: os.close(0)
        kw['stdin'] = None
        kw['preexec_fn'] = pre
    elif stdin_mode in ('pty', 'pty_timed'):
        master, slave = pty.openpty()
        kw['stdin'] = slave
    else:
        raise ValueError(stdin_mode)
    p = subprocess.Popen(cmd, **kw)
    out, err = [], []
    def reader(stream, sink):
        # bounded capture: a tool that never stops writing is killed instead of filling the memory
        buf, n = [], 0
        while True:
            chunk = stream.read(1 << 16)
            if not chunk:
                break
            n += len(chunk)
            if n <= max_out:
                buf.append(chunk)
            else:
                try:
                    p.kill()
                except Exception:
                    pass
        sink.append(b''.join(buf))
    t1 = threading.Thread(target=reader, args=(p.stdout, out), daemon=True)
    t2 = threading.Thread(target=reader, args=(p.stderr, err), daemon=True)
    t1.start(); t2.start()
    try:
        if stdin_mode == 'eof':
            p.stdin.close()
        elif stdin_mode in ('lines', 'lines_open'):
            try:
                p.stdin.write(data); p.stdin.flush()
                if stdin_mode == 'lines':
                    p.stdin.close()
            except BrokenPipeError:
                pass
        if stdin_mode == 'pty_timed':
            # a user typing on a real terminal: data = list of (delay_seconds, bytes) written to the pty master
            def typist():
                import time as _t
                for delay, chunk in data:
                    _t.sleep(delay)
                    try:
                        os.write(master, chunk)
                    except OSError:
                        return
            threading.Thread(target=typist, daemon=True).start()
        if stdin_mode == 'timed':
            # data: list of (delay_seconds, bytes) written by a helper thread while the process runs; the pipe stays open afterwards
            def writer():
                import time as _t
                for delay, chunk in data:
                    _t.sleep(delay)
                    try:
                        p.stdin.write(chunk); p.stdin.flush()
                    except (BrokenPipeError, ValueError, OSError):
                        return
            threading.Thread(target=writer, daemon=True).start()
        timed_out = False
        try:
            p.wait(timeout=timeout)
        except subprocess.TimeoutExpired:
            timed_out = True
            p.kill(); p.wait()
        t1.join(10); t2.join(10)
    finally:
        for fd in (master, slave):
            if fd is not None:
                try:
                    os.close(fd)
                except OSError:
                    pass
        try:
            if p.stdin:
                p.stdin.close()
        except Exception:
            pass
    return (out[0] if out else b''), (err[0] if err else b''), p.returncode, timed_out

def run_cli_blocked(script, args, chunks, settle=1.0, timeout=180, hashseed='0', max_out=64 << 20, use_pty=False, signal_when_blocked=None, pretyped=None):
    """Back-pressure monitor: start the CLI with stdout on a pipe nobody reads, wait until the pipe is full and its fill level has stopped moving (the
    generator is then blocked inside a write, at a well-defined point of its stream), write `chunks` (each one write()) to the stdin pipe, wait until the
    child has consumed them and its stderr has been quiet for `settle` seconds, then drain stdout until the process ends.
    Returns (stdout, stderr, returncode, timed_out, info); info['blocked'] is False when the process finished before it could be blocked."""
    import time, fcntl, termios, struct
    s = repo.scratch()
    cmd = [sys.executable, '-B', '-W', 'ignore', os.path.join(s, script)] + list(args)
    e = dict(os.environ, PYTHONHASHSEED=str(hashseed), PYTHONIOENCODING='utf-8')
    e.pop('VERIF_SCRATCH', None)
    # unbuffered stdout (python -u): with the default block buffering the helper thread's input() flushes sys.stdout first and so waits for the buffer lock
    # the blocked generator holds; the requests would only be read after the drain, and 'the moment the user asks to quit' would not be fixed by back-pressure
    e['PYTHONUNBUFFERED'] = '1'
    master = slave = None
    if use_pty:
        # standard input is a terminal somebody types on (the chunks are typed on the master side)
        master, slave = pty.openpty()
        if pretyped:
            os.write(master, pretyped)          # typed ahead: it waits in the terminal's input queue before the program has even started
        p = subprocess.Popen(cmd, stdin=slave, stdout=subprocess.PIPE, stderr=subprocess.PIPE, cwd=s, env=e)
    else:
        p = subprocess.Popen(cmd, stdin=subprocess.PIPE, stdout=subprocess.PIPE, stderr=subprocess.PIPE, cwd=s, env=e)
    def pending(fd):
        try:
            return struct.unpack('i', fcntl.ioctl(fd, termios.FIONREAD, b'\0\0\0\0'))[0]
        except OSError:
            return -1
    err, last_err = [], [time.time()]
    def err_reader():
        while True:
            chunk = p.stderr.read1(1 << 16) if hasattr(p.stderr, 'read1') else p.stderr.read(1 << 16)
            if not chunk:
                break
            err.append(chunk); last_err[0] = time.time()
    te = threading.Thread(target=err_reader, daemon=True); te.start()
    info = {'blocked': False, 'fill': 0, 'stdin_consumed': False, 'settle': settle}
    t0 = time.time()
    try:
        # 1. wait for the block: fill level > 0, unchanged for 0.4 s, process alive
        prev, since = -1, time.time()
        while time.time() - t0 < 60 and p.poll() is None:
            n = pending(p.stdout.fileno())
            if n != prev:
                prev, since = n, time.time()
            elif n >= 4096 and time.time() - since > 0.4:
                info['blocked'] = True; info['fill'] = n
                break
            time.sleep(0.02)
        if info['blocked'] and signal_when_blocked is not None:
            # fault injection: the signal arrives while the generator sits inside a write to the full pipe
            try:
                p.send_signal(signal_when_blocked)
                info['signalled'] = True
            except Exception:
                info['signalled'] = False
            time.sleep(settle)
        if info['blocked']:
            # 2. the requests, each chunk in one write
            for c in chunks:
                try:
                    os.write(master if use_pty else p.stdin.fileno(), c)
                except (BrokenPipeError, OSError):
                    break
                if use_pty:
                    time.sleep(0.35)          # a typist: one request at a time (the helper thread sleeps 0.1 s per request)
            # 3. consumed + quiet
            t1 = time.time()
            while time.time() - t1 < 20:
                if use_pty or pending(p.stdin.fileno()) == 0:
                    info['stdin_consumed'] = True
                    if time.time() - max(last_err[0], t1) > settle:
                        break
                time.sleep(0.02)
            info['fill_after_requests'] = pending(p.stdout.fileno())
        # 4. drain
        out, n = [], 0
        timed_out = False
        deadline = time.time() + timeout
        fd = p.stdout.fileno()
        while True:
            if time.time() > deadline:
                timed_out = True; p.kill(); break
            import select
            if not select.select([fd], [], [], 1.0)[0]:
                continue
            chunk = os.read(fd, 1 << 16)
            if not chunk:
                break
            n += len(chunk)
            if n <= max_out:
                out.append(chunk)
            else:
                p.kill()
        try:
            p.wait(timeout=30)
        except subprocess.TimeoutExpired:
            timed_out = True; p.kill(); p.wait()
        te.join(10)
    finally:
        try:
            if p.stdin:
                p.stdin.close()
        except Exception:
            pass
        if p.poll() is None:
            p.kill(); p.wait()
        for fd in (master, slave):
            if fd is not None:
                try:
                    os.close(fd)
                except OSError:
                    pass
    return b''.join(out), b''.join(err), p.returncode, timed_out, info


def run_cli_slow_reader(script, args, sip=512, pause=0.002, timeout=180, hashseed='0', max_out=64 << 20):
    """The CLI with its stdout on a pipe that is read in small sips with a pause after each (a consumer that is slower than the tool): the pipe is full most of the
    time, the tool runs with the interpreter's default buffering.  Returns (stdout, stderr, returncode, timed_out)."""
    import time
    s_ = repo.scratch()
    cmd = [sys.executable, '-B', '-W', 'ignore', os.path.join(s_, script)] + list(args)
    e = dict(os.environ, PYTHONHASHSEED=str(hashseed), PYTHONIOENCODING='utf-8')
    e.pop('VERIF_SCRATCH', None); e.pop('PYTHONUNBUFFERED', None)
    p = subprocess.Popen(cmd, stdin=subprocess.DEVNULL, stdout=subprocess.PIPE, stderr=subprocess.PIPE, cwd=s_, env=e)
    err = []
    te = threading.Thread(target=lambda: err.append(p.stderr.read()), daemon=True); te.start()
    out, n, t0, timed_out = [], 0, time.time(), False
    fd = p.stdout.fileno()
    time.sleep(0.3)          # the reader starts late
    while True:
        if time.time() - t0 > timeout:
            timed_out = True; p.kill(); break
        chunk = os.read(fd, sip)
        if not chunk:
            break
        n += len(chunk)
        if n <= max_out:
            out.append(chunk)
        else:
            p.kill()
        time.sleep(pause)
    try:
        p.wait(timeout=30)
    except subprocess.TimeoutExpired:
        timed_out = True; p.kill(); p.wait()
    te.join(10)
    return b''.join(out), b''.join(x or b'' for x in err), p.returncode, timed_out


def run_cli_stderr_closed(script, args, marker=b"Press 'q'", timeout=180, hashseed='0', max_out=64 << 20):
    """The CLI with stderr on a pipe whose reading end is closed once `marker` has been seen there (a logger on stderr that goes away, `2>&1 | head`): further
    writes to stderr fail, stdout stays healthy and is read to the end.  Returns (stdout, stderr_seen, returncode, timed_out)."""
    import time
    s_ = repo.scratch()
    cmd = [sys.executable, '-B', '-W', 'ignore', os.path.join(s_, script)] + list(args)
    e = dict(os.environ, PYTHONHASHSEED=str(hashseed), PYTHONIOENCODING='utf-8')
    e.pop('VERIF_SCRATCH', None); e.pop('PYTHONUNBUFFERED', None)
    p = subprocess.Popen(cmd, stdin=subprocess.DEVNULL, stdout=subprocess.PIPE, stderr=subprocess.PIPE, cwd=s_, env=e)
    out = []
    def rd():
        n = 0
        while True:
            chunk = p.stdout.read(1 << 16)
            if not chunk:
                break
            n += len(chunk)
            if n <= max_out:
                out.append(chunk)
            else:
                p.kill()
    t = threading.Thread(target=rd, daemon=True); t.start()
    seen, t0 = b'', time.time()
    fd = p.stderr.fileno()
    while marker not in seen and time.time() - t0 < 30:
        chunk = os.read(fd, 4096)
        if not chunk:
            break
        seen += chunk
    p.stderr.close()
    timed_out = False
    try:
        p.wait(timeout=timeout)
    except subprocess.TimeoutExpired:
        timed_out = True; p.kill(); p.wait()
    t.join(10)
    return b''.join(out), seen, p.returncode, timed_out
