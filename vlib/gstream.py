"""Shared execution for the guess-stream properties: write a spec, load it with the real loader, run the real queue."""
import os, json, subprocess, sys, hashlib
from . import repo, rulesets, oracles, monitors

def materialise(spec, tag='s'):
    name, path = repo.new_rules_dir(tag)
    rulesets.write_ruleset(path, spec)
    return name, path

def materialise_case(run, case, tag):
    """A case carries either a synthetic spec or a training list ('train'): the latter is trained with the real trainer first."""
    if case.get('train') is not None:
        from . import trained
        name, path, res = trained.train_case(case['train'], tag)
        if not res.ok:
            repo.drop_rules(name)
            run.ev('trainings_not_completed'); run.inconc('training did not complete')
            return None, None
        run.ev('trained_rulesets')
        return name, path
    return materialise(case['spec'], tag)

def flags_of(case):
    f = case.get('flags', {})
    return dict(skip_brute=bool(f.get('skip_brute')), skip_case=bool(f.get('all_lower')), folder=f.get('folder', 'Grammar'))

# Process history: the queue of the grammar loaded before, abandoned after a few pops, stays alive (and is popped now and then) while the next queue runs.
# Queues and grammars are independent objects, so this cannot change what the monitored queue emits.
LIVE = {'pcfg': None, 'decoys': [], 'calls': 0, 'used': 0, 'decoy_pops': 0}

def run_queue(path, flags, frontier=False, expand=None, max_pops=60000):
    """Returns (pcfg, QueueMonitor, per-pop guesses or None).  expand: None | callable(rec, item, pcfg) called per pop."""
    repo.scratch()
    from lib_guesser.priority_queue import PcfgQueue
    LIVE['calls'] += 1
    decoy = None
    if LIVE['pcfg'] is not None and LIVE['calls'] % 2 == 0:
        try:
            decoy = PcfgQueue(LIVE['pcfg'])
            for _ in range(3):
                if decoy.next() is None:
                    break
                LIVE['decoy_pops'] += 1
            LIVE['decoys'] = (LIVE['decoys'] + [decoy])[-2:]
            LIVE['used'] += 1
        except Exception:
            decoy = None
    pcfg = monitors.load_pcfg(path, 'x', skip_brute=flags['skip_brute'], skip_case=flags['skip_case'], folder=flags['folder'])
    LIVE['pcfg'] = pcfg
    q = PcfgQueue(pcfg)
    mon = monitors.QueueMonitor(pcfg, q, frontier=frontier)
    while True:
        item = mon.next()
        if item is None:
            break
        if decoy is not None and len(mon.pops) % 7 == 3:
            try:
                if decoy.next() is not None:
                    LIVE['decoy_pops'] += 1
            except Exception:
                pass
        if expand:
            expand(mon.pops[-1], item, pcfg)
        if len(mon.pops) > max_pops:
            raise OverflowError('more pops than the cap')
    return pcfg, mon

def oracle_index(lang, cap=60000):
    """(labels, idx) -> list of [base_file_index, base_prob, float_prob, used_flag]"""
    idx = {}
    n = 0
    for bi, iv, pr, labs in lang.preterminals(cap=cap):
        idx.setdefault((tuple(labs), tuple(iv)), []).append([bi, pr, False])
        n += 1
    return idx, n

def add_prince(rng, spec):
    """Prince/grammar.txt: one line per label used anywhere (plus optionally E / W), like prince_metrics writes."""
    labs = sorted(l for l in spec['terms'] if l[0] != 'C')
    extra = []
    if rng.random() < 0.4:
        spec['terms']['E'] = rulesets.rows_grouped(rng, ['gmail.com', 'aol.com', 'mail.ru'][:rng.randint(1, 3)], rng.randint(1, 2), 'counts')
        extra.append('E')
    if rng.random() < 0.4:
        spec['terms']['W'] = rulesets.rows_grouped(rng, ['google.com', 'x.org', 'site.net'][:rng.randint(1, 3)], rng.randint(1, 2), 'counts')
        extra.append('W')
    labs += extra
    rng.shuffle(labs)
    probs = rulesets.prob_vector(rng, len(labs), rng.choice([spec.get('pool', 'counts'), 'counts', 'equal', 'rare']))
    spec['prince'] = [[l, p] for l, p in zip(labs, probs)]
    return spec

POPDUMP = r'''
import sys, json, os
sys.dont_write_bytecode = True
sys.path.insert(0, sys.argv[1])
import io, contextlib
from lib_guesser.pcfg_grammar import PcfgGrammar
from lib_guesser.priority_queue import PcfgQueue
fl = json.loads(sys.argv[3])
with contextlib.redirect_stderr(io.StringIO()):
    pcfg = PcfgGrammar('x', sys.argv[2], '4.7', None, skip_brute=fl['skip_brute'], skip_case=fl['skip_case'], base_structure_folder=fl['folder'])
q = PcfgQueue(pcfg)
out = []
while True:
    it = q.next()
    if it is None: break
    out.append([[list(x) for x in it['pt']], repr(it['prob']), repr(it['base_prob'])])
print(json.dumps(out))
'''

def popdump_subprocess(path, flags, hashseed):
    """The same ruleset+flags in a fresh interpreter with another PYTHONHASHSEED; returns the POP sequence."""
    env = dict(os.environ, PYTHONHASHSEED=str(hashseed))
    r = subprocess.run([sys.executable, '-B', '-c', POPDUMP, repo.scratch(), path, json.dumps(flags)], env=env,
                       capture_output=True, text=True, timeout=300)
    if r.returncode != 0:
        raise RuntimeError('popdump failed: ' + r.stderr[-500:])
    return json.loads(r.stdout)
