"""C01 — non-increasing probability order; reported prob = product; determinism."""
import json, os, math
from fractions import Fraction
from .. import repo, rulesets, oracles, monitors, gstream
from ..evidence import timebox, CaseTimeout, h

LEVEL = 'exploration'
RULE = ('random well-formed rulesets (1-5 base structures incl. duplicates, repeated variable types, 1-4 groups of 1-3 values, '
        'probability pools: dyadic / decimal / thirds / tiny-underflow / all-equal / count-ratios) x skip_brute x all_lower x '
        '{Grammar,Prince}; every POP of the real PcfgQueue to exhaustion is checked online; every second run has the previous grammar\'s queue, abandoned after 3 pops, alive and popped in between (process history); fresh-process runs under other hash seeds must give the same sequence. non-trivial = run with >=1 exact '
        'float tie between distinct pre-terminals or a repeated variable type; distinct by hash(spec, flags)')
SHARDS = {'quick': 4, 'thorough': 16}
N = {'quick': 90, 'thorough': 2500}      # rulesets per shard

def gen_case(rng):
    if rng.random() < 0.2:
        from .. import trained
        return {'train': trained.gen_train_case(rng, max_len_choices=(21,), coverages=(0.6, 1.0, 0.3)), 'spec': {'base': [], 'prince': [], 'pool': 'trained'},
                'flags': {'skip_brute': rng.random() < 0.5, 'all_lower': rng.random() < 0.3, 'folder': rng.choice(['Grammar', 'Grammar', 'Prince'])}}
    mg, xg, ml = rng.choice([(1, 4, 4), (2, 5, 3), (3, 6, 3), (3, 7, 4)])
    spec = rulesets.gen_spec(rng, min_groups=mg, max_groups=xg, max_len=ml)
    flags = {'skip_brute': rng.random() < 0.4, 'all_lower': rng.random() < 0.3,
             'folder': 'Prince' if rng.random() < 0.2 else 'Grammar'}
    if flags['folder'] == 'Prince':
        gstream.add_prince(rng, spec)
    return {'spec': spec, 'flags': flags}

def check_case(run, case, determinism=False):
    name, path = gstream.materialise_case(run, case, 'c01')
    if name is None:
        return
    try:
        flags = gstream.flags_of(case)
        disk = oracles.Disk(path)
        lang = oracles.Language(disk, flags['skip_brute'], flags['skip_case'], flags['folder'])
        if lang.size() > 20000:
            run.inconc('language above cap')
            return
        index, total = gstream.oracle_index(lang)
        used = gstream.LIVE['used']
        try:
            pcfg, mon = gstream.run_queue(path, flags, max_pops=total + 5)
        except OverflowError:
            run.violation(f'the queue keeps emitting pre-terminals beyond the {total} the language holds (no exhaustion)', case); return
        run.ev('POP', len(mon.pops))
        if gstream.LIVE['used'] != used:
            run.ev('runs_beside_a_live_abandoned_queue')
        if case.get('train') is not None:
            case['spec']['base'] = [list(x) for x in disk.base_rows['Grammar']][:8]; case['spec']['prince'] = [list(x) for x in disk.base_rows['Prince']][:8]
        brief = {'base': case['spec']['base'] if flags['folder'] == 'Grammar' else case['spec']['prince'], 'flags': case['flags'],
                 'pool': case['spec'].get('pool')}
        nviol0 = len(run.violations)
        for kind, k, msg in [x for x in mon.problems if x[0] == 'order'][:3]:
            run.violation(f'{kind}: {msg}', case, observed=[[p['key'], repr(p['prob'])] for p in mon.pops[max(0, k - 3):k + 1]])
        internal = [x for x in mon.problems if x[0] != 'order']
        ties = 0
        prev = None
        probs_seen = {}
        for p in mon.pops:
            ent = index.get(p['key'])
            if ent is None:
                run.violation(f"pre-terminal {p['key']} is not in the ruleset's language", case, observed=p['key'])
                break
            # match the base structure by its reported base probability
            cands = [e for e in ent if e[1] is not None]
            labs, idx = p['key']
            ok = False
            for e in ent:
                bi = e[0]
                exact = lang.exact_prob(bi, labs, idx)
                if abs(Fraction(p['prob']) - exact) <= Fraction(monitors.ulp_tol(exact, len(labs) + 1)):
                    ok = True
                    break
            run.ev('prob_checked')
            if not ok:
                exact = lang.exact_prob(ent[0][0], labs, idx)
                run.violation(f"reported probability of {p['key']} is not the product of its factors", case,
                              observed=repr(p['prob']), expected=repr(float(exact)))
                break
            if p['prob'] in probs_seen and probs_seen[p['prob']] != p['key']:
                ties += 1
            probs_seen.setdefault(p['prob'], p['key'])
        if len(mon.pops) != total:
            run.ev('count_mismatch_seen_by_C02_oracle')
        if internal:
            # anomalies inside the queue object (heap content, max_probability field): reported as context of an observable violation, otherwise only counted
            if len(run.violations) > nviol0:
                run.violations[-1]['observed'] = {'observed': run.violations[-1].get('observed'), 'queue_internals': [f'{k_}: {m_}' for k_, _, m_ in internal[:3]]}
            else:
                run.ev('queue_internal_anomalies_without_observable_effect', len(internal))
        repeated = any(len(set(s)) < len(s) for s in ([oracles.tokens(b[0]) for b in brief['base']]))
        run.case((h(case),) if (ties or repeated) else None)
        if ties:
            run.ev('runs_with_exact_ties')
        run.ev('tie_pairs', ties)
        run.sample({'base': brief['base'], 'flags': case['flags'], 'pops': len(mon.pops), 'tie_pairs': ties,
                    'first_pops': [[list(p['key'][1]), repr(p['prob'])] for p in mon.pops[:4]]})
        if determinism:
            seq = [[[list(x) for x in zip(*p['key'])], repr(p['prob']), repr(p['base_prob'])] for p in mon.pops]
            for hs in (1, 4242):
                other = gstream.popdump_subprocess(path, flags, hs)
                run.ev('determinism_runs')
                if other != seq:
                    k = next((i for i, (a, b) in enumerate(zip(seq, other)) if a != b), min(len(seq), len(other)))
                    run.violation(f'POP sequence differs in a fresh process with PYTHONHASHSEED={hs} at pop {k}', case,
                                  observed=other[k:k + 2], expected=seq[k:k + 2])
                    break
    finally:
        repo.drop_rules(name)

def big_queue_case(rng):
    """More than 50 000 base structures, every variable with two probability groups: the queue holds over 50 000 pre-terminals at once and keeps that size
    while children replace their parents (the tool has a `max_queue_size` of 50 000 that has never been enforced)."""
    import itertools
    labels = ['A1', 'A2', 'A3', 'D1', 'D2', 'D3', 'O1', 'O2', 'K4', 'Y1', 'X1', 'D4', 'A4', 'O3', 'A5', 'D5']
    tuples = rng.sample(list(itertools.product(labels, repeat=4)), 50400)
    n = len(tuples)
    tot = n * (n + 1) // 2
    base = [[''.join(t), (n - i) / tot] for i, t in enumerate(tuples)]
    vals = {'A': lambda k: ['abcde'[:k], 'zyxwv'[:k]], 'D': lambda k: ['12345'[:k], '98765'[:k]], 'O': lambda k: ['!@#'[:k], '...'[:k]],
            'K': lambda k: ['1qaz', 'zaq1'], 'Y': lambda k: ['1999', '2012'], 'X': lambda k: ['#1', '<3']}
    terms = {}
    for lab in labels:
        a, b = vals[lab[0]](int(lab[1:]))
        terms[lab] = [[a, 0.7], [b, 0.3]]
        if lab[0] == 'A':
            terms['C' + lab[1:]] = [['L' * int(lab[1:]), 0.8], ['U' + 'L' * (int(lab[1:]) - 1), 0.2]]
    return {'spec': {'encoding': 'utf-8', 'uuid': 'bigq-%08x' % rng.getrandbits(32), 'base': base, 'prince': [], 'terms': terms, 'omen': None}, 'big_queue': True,
            'flags': {'skip_brute': False, 'all_lower': False, 'folder': 'Grammar'}}

def check_big_queue(run, case, npops=62000):
    """Prefix of a run that cannot be exhausted here: the first npops pre-terminals, order and attached probability only (no per-pop scan of the heap)."""
    name, path = gstream.materialise(case['spec'], 'c01big')
    try:
        repo.scratch()
        from lib_guesser.priority_queue import PcfgQueue
        pcfg = monitors.load_pcfg(path, 'x')
        q = PcfgQueue(pcfg)
        gp = {lab: [r[1] for r in rows] for lab, rows in case['spec']['terms'].items()}
        bp = {s_: p for s_, p in case['spec']['base']}
        prev, seen = None, set()
        for k in range(npops):
            it = q.next()
            if it is None:
                break
            key = monitors.pt_key(it['pt'])
            run.ev('POP'); run.ev('prob_checked')
            if prev is not None and it['prob'] > prev:
                run.violation(f'order: pop {k} prob {it["prob"]!r} > previous {prev!r} (ruleset with {len(bp)} base structures, more than 50 000 pre-terminals queued at once)', case={'big_queue': True, 'hseed': 0}); return
            prev = it['prob']
            struct = ''.join(l for l in key[0] if l[0] != 'C')
            exp = bp[struct]
            for lab, i in zip(*key):
                exp *= gp[lab][i]
            if abs(exp - it['prob']) > 1e-12 * exp:
                run.violation(f'reported probability of {key} is not the product of its factors', case={'big_queue': True, 'hseed': 0}, observed=repr(it['prob']), expected=repr(exp)); return
            if key in seen:
                run.violation(f'pre-terminal {key} emitted twice within the first {npops} pops of a large ruleset', case={'big_queue': True, 'hseed': 0}); return
            seen.add(key)
        run.ev('big_queue_runs')
        run.sample({'big_queue': True, 'base_structures': len(bp), 'pops': len(seen), 'last_prob': repr(prev)})
    finally:
        repo.drop_rules(name)

FIXED_TIE_SEEDS = list(range(9000, 9080))

def long_session_case(rng):
    """One structure D2D2D2 over 48 values of pairwise different probability: 110 592 pre-terminals of one guess each, run through the real main() - whatever the
    session does every so many pre-terminals (progress lines, bookkeeping), the order of the stream is the order of the probabilities."""
    vals = rng.sample(['%02d' % v for v in range(100)], 48)
    w = sorted((rng.uniform(1.0, 2.0) * (0.93 ** i) for i in range(48)), reverse=True)
    tot = sum(w)
    return {'spec': {'encoding': 'utf-8', 'uuid': 'longs-%08x' % rng.getrandbits(32), 'base': [['D2D2D2', 1.0]], 'prince': [], 'terms': {'D2': [[v, x / tot] for v, x in zip(vals, w)]}, 'omen': None},
            'long_session': True, 'flags': {'skip_brute': False, 'all_lower': False, 'folder': 'Grammar'}}

def check_long_session(run, case):
    from .. import session
    name, path = gstream.materialise(case['spec'], 'c01long')
    sn = session.new_session_name('c01long')
    try:
        r = session.run_main(['-r', name, '-s', sn], max_guesses=200000)
        run.ev('long_session_runs'); run.ev('POP', len(r.pops)); run.ev('prob_checked', len(r.pops))
        if r.exc is not None:
            run.violation(f'main() raised {r.exc!r} in a session of {len(r.pops)} pre-terminals', case, observed=r.stderr[-300:]); return
        if len(r.pops) != 48 ** 3:
            run.violation(f'a session over 48^3 = 110592 pre-terminals emitted {len(r.pops)}', case); return
        prev = None
        for k, p_ in enumerate(r.pops):
            if prev is not None and p_['prob'] > prev:
                run.violation(f'order: pre-terminal {k + 1} of a long session has probability {p_["prob"]!r} > previous {prev!r}', case, observed=[x['prob'] for x in r.pops[max(0, k - 3):k + 2]]); return
            prev = p_['prob']
        run.case(h(['long-session', case['spec']['uuid']]))
    finally:
        session.drop_session(sn)
        repo.drop_rules(name)

def run(run, rng):
    run.required_events = ['POP', 'prob_checked', 'determinism_runs', 'runs_beside_a_live_abandoned_queue', 'big_queue_runs']
    run.min_distinct = 5
    run.assumptions = ['well-formed rulesets: every label used by a base structure has a non-empty file, values have the stated length',
                       'probability equality is judged on the doubles the loader obtains with float(text)',
                       'reported probability may differ from the exact rational product by (n+3) ulp (any multiplication order)']
    if run.shard[0] == 1 % run.shard[1] or (run.tier == 'thorough' and run.shard[0] < 3):
        run.guard(big_queue_case(rng), check_big_queue, seconds=600)
    if run.shard[0] == 2 % run.shard[1]:
        run.guard(long_session_case(rng), check_long_session, seconds=600)
    if run.shard[0] == 3 % run.shard[1]:
        # tie-heavy rulesets from a generator of their own (the same ones under every seed): exact ties, near ties and underflow, several groups per variable
        import random as _r
        for fixed_seed in FIXED_TIE_SEEDS:
            r2 = _r.Random(fixed_seed)
            spec = rulesets.gen_spec(r2, pool=r2.choice(['nearties', 'dyadic', 'dyadic3', 'equal', 'tiny', 'decimal', 'thirds']), min_groups=3, max_groups=7, max_len=4, n_base=r2.randint(2, 4))
            run.ev('fixed_tie_rulesets')
            run.guard({'spec': spec, 'flags': {'skip_brute': False, 'all_lower': False, 'folder': 'Grammar'}}, check_case, determinism=False, seconds=120)
        # probability fields of the longest spelling repr() produces (17 significant digits and a three-digit exponent: 23 characters), in base structures and terminals
        # (seeded C01s: a loader that reads only the first 22 characters of the field)
        w = [0.5, 0.3, 0.2]
        long_spec = {'encoding': 'utf-8', 'uuid': 'longfield-0001', 'prince': [], 'omen': None,
                     'base': [['D2', 0.6], ['D1', 0.39999999999999997], ['D1D2', 1e-30], ['D2D1', 1.2345678901234567e-105], ['D1D1', 9.8765432109876543e-250]],
                     'terms': {'D1': [['7', 0.7000000000000001], ['3', 0.29999999999999993], ['5', 1.2345678901234567e-101]],
                               'D2': [['12', 0.5], ['34', 0.49999999999999994], ['56', 2.3456789012345678e-120]]}}
        assert len(repr(long_spec['base'][3][1])) == 23
        run.ev('fixed_long_field_rulesets')
        run.guard({'spec': long_spec, 'flags': {'skip_brute': False, 'all_lower': False, 'folder': 'Grammar'}}, check_case, determinism=False, seconds=120)
    n = N[run.tier]
    for i in range(n):
        case = gen_case(rng)
        run.guard(case, check_case, determinism=(i % (6 if run.tier == 'quick' else 40) == 0), seconds=60)

def replay(run, case):
    if case['case'].get('long_session'):
        check_long_session(run, case['case'])
    elif case['case'].get('big_queue'):
        import random
        check_big_queue(run, big_queue_case(random.Random(case['case'].get('hseed', 0))))
    else:
        check_case(run, case['case'], determinism=True)
