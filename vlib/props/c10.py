"""C10 — the OMEN generator enumerates each level exactly, independent of cache contents / generation history."""
import os, shutil
from collections import Counter
from .. import repo, rulesets, oracles
from ..evidence import timebox, CaseTimeout, h

LEVEL = 'exploration'
RULE = ('generated OMEN models (ngram 2-5, alphabets of 1-4 symbols incl. non-ASCII, level pools {0..3},{0,1},{0..10},skewed, sparse and dense, '
        'dead-end prefixes, lengths at arbitrary levels incl. level-10-only tables) written to disk and loaded with the real load_rules; for every '
        'level 0..max+2 the real MarkovCracker.next_guess() is pulled until None under three cache histories (fresh Optimizer, one Optimizer shared '
        'over a shuffled level sequence with repeats, Optimizer pre-filled by another run) and compared with a brute-force enumeration. '
        'non-trivial = (model, level) with >=2 strings; distinct by hash(model, level)')
SHARDS = {'quick': 4, 'thorough': 16}
N = {'quick': 120, 'thorough': 2500}

def gen_case(rng):
    om = rulesets.gen_omen(rng)
    cls = rng.random()
    if cls < 0.08:       # only-top-level tables (corner of the fixed F-C10)
        which = rng.choice(['ln', 'ip'])
        if which == 'ln':
            L = rng.randint(om['ngram'], len(om['ln']))
            om['ln'] = [10] * len(om['ln'])
            om['ln'][L - 1] = 10
        else:
            om['ip'] = [[10, g] for _, g in om['ip']]
    return {'omen': om, 'order_seed': rng.getrandbits(32), 'opt_len': rng.choice([4, 4, 4, 1, 2, 6])}

def pull(MarkovCracker, grammar, level, opt, cap):
    mc = MarkovCracker(grammar, level, opt)
    out = []
    while True:
        g = mc.next_guess()
        if g is None:
            break
        out.append(g)
        if len(out) > cap:
            break
    # exhaustion must be stable: asking again starts over or returns None, never raises
    return out

def check_case(run, case):
    import random
    repo.scratch()
    from lib_guesser.omen.input_file_io import load_rules
    from lib_guesser.omen.markov_cracker import MarkovCracker
    from lib_guesser.omen import optimizer as optmod
    name, path = repo.new_rules_dir('c10')
    try:
        od = os.path.join(path, 'Omen')
        rulesets.write_omen(od, case['omen'])
        model = oracles.OmenModel(od)
        grammar = {}
        if not load_rules(od, grammar):
            run.violation('real load_rules rejected a well-formed OMEN model', case); return
        maxL = min(max([l for l in model.ln if l < 99] + [0]) + max(model.ip.values()) + 10 * 2, 14)
        try:
            expected = model.all_levels(maxL + 2, cap=150000)
        except OverflowError:
            run.inconc('model above enumeration cap'); return
        hits = {'n': 0}
        class CountingOptimizer(optmod.Optimizer):
            def lookup(self, *a, **k):
                r = super().lookup(*a, **k)
                if r[0]:
                    hits['n'] += 1
                return r
        rng = random.Random(case['order_seed'])
        levels = list(range(0, maxL + 3))
        def compare(L, got, mode):
            exp = expected.get(L, [])
            run.ev('levels_generated'); run.ev('GUESS', len(got))
            if Counter(got) != Counter(exp):
                miss = list((Counter(exp) - Counter(got)).elements())[:5]
                extra = list((Counter(got) - Counter(exp)).elements())[:5]
                run.violation(f'level {L} ({mode}): generator output differs from brute force: {len(miss)}+ missing, {len(extra)}+ extra/duplicated',
                              case, observed={'missing': miss, 'extra': extra, 'n': len(got)}, expected={'n': len(exp)})
                return False
            run.case(h([case['omen'], L]) if len(exp) >= 2 else None)
            return True
        # (a) fresh optimizer per level
        base = {}
        for L in levels:
            got = pull(MarkovCracker, grammar, L, CountingOptimizer(max_length=case['opt_len']), len(expected.get(L, [])) + 2)
            base[L] = got
            if not compare(L, got, 'fresh cache'):
                return
        # (b) one optimizer shared over a shuffled sequence with repeats
        seq = levels + rng.sample(levels, min(len(levels), 5))
        rng.shuffle(seq)
        shared = CountingOptimizer(max_length=case['opt_len'])
        for L in seq:
            got = pull(MarkovCracker, grammar, L, shared, len(expected.get(L, [])) + 2)
            if got != base[L]:
                run.violation(f'level {L}: output depends on cache history (shared optimizer, sequence {seq})', case,
                              observed=got[:8], expected=base[L][:8])
                return
            run.ev('levels_generated')
        # (c) optimizer pre-filled by a *different* model over the same alphabet is not legal; pre-fill by partial pulls of this model
        pre = CountingOptimizer(max_length=case['opt_len'])
        for L in rng.sample(levels, min(4, len(levels))):
            mc = MarkovCracker(grammar, L, pre)
            for _ in range(rng.randint(0, 3)):
                if mc.next_guess() is None:
                    break
        for L in rng.sample(levels, min(6, len(levels))):
            got = pull(MarkovCracker, grammar, L, pre, len(expected.get(L, [])) + 2)
            if got != base[L]:
                run.violation(f'level {L}: output depends on cache history (optimizer pre-filled by interrupted generations)', case,
                              observed=got[:8], expected=base[L][:8])
                return
            run.ev('levels_generated')
        # (d) two generators alive at the same time, sharing one cache and pulled alternately (what a status thread / a resumed level does)
        inter = CountingOptimizer(max_length=case['opt_len'])
        La, Lb = rng.sample(levels, 2) if len(levels) >= 2 else (levels[0], levels[0])
        ma, mb = MarkovCracker(grammar, La, inter), MarkovCracker(grammar, Lb, inter)
        oa, ob, da, db = [], [], False, False
        for _ in range(2 * (len(base[La]) + len(base[Lb])) + 8):
            if not da and (db or rng.random() < 0.5):
                g = ma.next_guess()
                da = g is None
                if g is not None:
                    oa.append(g)
            elif not db:
                g = mb.next_guess()
                db = g is None
                if g is not None:
                    ob.append(g)
            if da and db:
                break
        if oa != base[La] or ob != base[Lb]:
            run.violation(f'levels {La} and {Lb} generated alternately through one shared cache differ from their stand-alone output', case,
                          observed={'a': oa[:6], 'b': ob[:6]}, expected={'a': base[La][:6], 'b': base[Lb][:6]})
            return
        run.ev('interleaved_pairs')
        # (e) the same model with DOS line ends in the n-gram files (a ruleset that went through a Windows checkout; Rules/Default ships LN.level that way) is the same model
        files = [os.path.join(od, f) for f in ('IP.level', 'CP.level', 'EP.level', 'LN.level')]
        raw = [open(f, 'rb').read() for f in files]
        if not any(b'\r' in b for b in raw):
            for f, b in zip(files, raw):
                open(f, 'wb').write(b.replace(b'\n', b'\r\n'))
            g2 = {}
            ok2 = load_rules(od, g2)
            for f, b in zip(files, raw):
                open(f, 'wb').write(b)
            if not ok2:
                run.violation('real load_rules rejected the model once its n-gram files had CRLF line ends', case); return
            for L in rng.sample(levels, min(4, len(levels))):
                got = pull(MarkovCracker, g2, L, CountingOptimizer(max_length=case['opt_len']), len(expected.get(L, [])) + 2)
                if got != base[L]:
                    run.violation(f'level {L}: the model read from n-gram files with CRLF line ends generates {len(got)} strings, the LF files {len(base[L])} (same content)', case,
                                  observed=got[:8], expected=base[L][:8])
                    return
            run.ev('crlf_twin_models')
        # (e) one generator object used again after it reported exhaustion (next_guess documents: "it will reset so if you call it again it will start looping
        # over the same guesses"): the second round is the level again, whatever was generated before
        for L in rng.sample(levels, min(4, len(levels))):
            mc = MarkovCracker(grammar, L, CountingOptimizer(max_length=case['opt_len']))
            rounds = []
            for _ in range(2):
                out = []
                for _i in range(len(base[L]) + 3):
                    g = mc.next_guess()
                    if g is None:
                        break
                    out.append(g)
                rounds.append(out)
            if rounds[0] != base[L] or rounds[1] != base[L]:
                run.violation(f'level {L}: a generator asked again after reporting exhaustion does not produce the level again ({len(rounds[1])} strings, the level has {len(base[L])})', case,
                              observed=rounds[1][:8], expected=base[L][:8]); return
            run.ev('generators_drained_twice')
        # (f) a generation interrupted after j strings, saved with save_session() and continued by a generator that is built the way the guesser restores
        # one (for level 1, then load_session()): the two parts together are the level, whatever level the restored object was first built for
        sess = os.path.join(path, 'c10_session.omn')
        for L in rng.sample(levels, min(5, len(levels))):
            if not base[L]:
                continue
            for j in sorted({1, len(base[L]) // 2, len(base[L]) - 1, rng.randint(1, len(base[L]))} - {0}):
                opt = CountingOptimizer(max_length=case['opt_len'])
                mc = MarkovCracker(grammar, L, opt)
                head = [mc.next_guess() for _ in range(j)]
                mc2 = MarkovCracker(grammar, 1, opt if rng.random() < 0.5 else CountingOptimizer(max_length=case['opt_len']))
                try:
                    mc.save_session(sess)
                    mc2.load_session(sess, {'pt': [['M', 0, 0]]})
                except (TypeError, AttributeError, KeyError, IndexError) as e:
                    # the save / restore interface is not the one this history was written against: not decided here (C15 drives it through main())
                    run.inconc('MarkovCracker.save_session / load_session interface differs'); break
                tail = []
                for _i in range(len(base[L]) + 3):
                    g = mc2.next_guess()
                    if g is None:
                        break
                    tail.append(g)
                if head + tail != base[L]:
                    miss = list((Counter(base[L]) - Counter(head + tail)).elements())[:5]
                    extra = list((Counter(head + tail) - Counter(base[L])).elements())[:5]
                    run.violation(f'level {L}: generation saved after {j} of {len(base[L])} strings and continued by a restored generator gives {len(head) + len(tail)} strings '
                                  f'({len(miss)}+ missing, {len(extra)}+ extra/repeated)', case, observed={'missing': miss, 'extra': extra, 'tail': tail[:6]}, expected=base[L][j:j + 6])
                    return
                run.ev('generations_saved_and_restored')
        run.ev('cache_hits', hits['n'])
        run.ev('models')
        nz = {L: len(v) for L, v in expected.items() if v}
        run.sample({'ngram': case['omen']['ngram'], 'ip': case['omen']['ip'][:4], 'cp': case['omen']['cp'][:6], 'ln': case['omen']['ln'],
                    'strings_per_level': dict(sorted(nz.items())[:8]), 'cache_hits': hits['n']})
    finally:
        repo.drop_rules(name)

def run(run, rng):
    run.required_events = ['levels_generated', 'GUESS', 'cache_hits', 'interleaved_pairs', 'generations_saved_and_restored']
    run.min_distinct = 20
    run.assumptions = ['well-formed models: each n-gram listed once, levels 0..10', 'models with more than 150000 strings up to the probed level are not decided',
                       'order of strings inside a level is not part of the property; equality across cache histories is checked on the exact sequence']
    for i in range(N[run.tier]):
        case = gen_case(rng)
        run.guard(case, check_case, seconds=60)

def replay(run, case):
    check_case(run, case['case'])
