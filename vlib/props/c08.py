"""C08 — resuming a saved session loses nothing and repeats at most the tied group (crash-point enumeration)."""
import io, os, configparser
from collections import Counter
from .. import repo, rulesets, oracles, monitors, gstream, session
from ..evidence import timebox, CaseTimeout, h

LEVEL = 'fault_enumeration'
RULE = ('tie-heavy generated rulesets (5-600 pre-terminals, no Markov structure); uninterrupted POP sequence U from the real queue; then for EVERY k '
        'the queue is rebuilt by the real restore code from the save state of a quit noticed at the k-th pop (max_probability written and re-read '
        'through configparser text) and run to exhaustion; plus histories of 1-4 quit/--load cycles through the real pcfg_guesser.main(), keypress '
        'thread and .sav file with scripted q at chosen POP/GUESS events, and UUID-mismatch loads. non-trivial = cut point where another pre-terminal '
        'ties with the saved probability or a node below the cut has parents on both sides of it; distinct by (ruleset hash, k)')
SHARDS = {'quick': 4, 'thorough': 16}
N = {'quick': 40, 'thorough': 700}
MAIN_HISTORIES = {'quick': 3, 'thorough': 5}

def gen_case(rng):
    mg, xg, ml = rng.choice([(1, 4, 4), (2, 5, 3), (3, 6, 3), (2, 4, 4)])
    spec = rulesets.gen_spec(rng, with_m=False, min_groups=mg, max_groups=xg, max_len=ml,
                             pool=rng.choice(['dyadic', 'dyadic3', 'equal', 'decimal', 'thirds', 'counts', 'counts', 'random', 'tiny', 'nearties']))
    flags = {'skip_brute': rng.random() < 0.2, 'all_lower': rng.random() < 0.3, 'folder': 'Grammar'}
    return {'spec': spec, 'flags': flags, 'hseed': rng.getrandbits(32)}

def save_cfg(max_prob, min_prob=0.0):
    c = configparser.ConfigParser()
    c.add_section('guessing_info')
    c.set('guessing_info', 'min_probability', str(min_prob))
    c.set('guessing_info', 'max_probability', str(max_prob))
    buf = io.StringIO(); c.write(buf)
    c2 = configparser.ConfigParser(); c2.read_string(buf.getvalue())
    return c2

def judge(run, case, U, runs, saved, where, mech=None):
    """U: list of (key, prob) of the uninterrupted run.  runs: list of POP lists [(key, prob)], run i>0 resumed from saved[i-1]=P(X).
    Emitted of a run that ended by quit = all but its last pop (popped, saved, not generated)."""
    emitted_all = Counter()
    budget = Counter(k for k, p in U)
    ok = True
    for i, (r, quit_) in enumerate(runs):
        probs = [p for k, p in r]
        if any(b > a for a, b in zip(probs, probs[1:])):
            run.violation(f'{where}: run {i} is not in non-increasing probability order', case, observed=[repr(p) for p in probs[:12]], mech=mech); ok = False
        if i > 0:
            px = saved[i - 1]
            if probs and max(probs) > px:
                run.violation(f'{where}: resumed run {i} emitted a pre-terminal more probable ({max(probs)!r}) than the saved position ({px!r})', case,
                              observed=[[k, repr(p)] for k, p in r[:5]], mech=mech); ok = False
        em = r[:-1] if quit_ else r
        for k, p in em:
            emitted_all[k] += 1
            if emitted_all[k] > budget[k]:
                # a repeat: allowed only if its probability equals the saved position this run resumed from
                if i == 0 or p != saved[i - 1]:
                    run.violation(f'{where}: pre-terminal {k} (prob {p!r}) emitted again in run {i} although its probability differs from the saved position '
                                  f'{saved[i - 1] if i else None!r}', case, observed={'saved_positions': [repr(s) for s in saved]}, mech=mech); ok = False
                    return ok
    lost = budget - emitted_all
    if lost:
        run.violation(f'{where}: {sum(lost.values())} pre-terminal(s) of the uninterrupted run never emitted by the interrupted history', case,
                      observed=sorted(lost)[:5], mech=mech); ok = False
    foreign = [k for k in emitted_all if k not in budget]
    if foreign:
        run.violation(f'{where}: history emitted pre-terminals the uninterrupted run never does', case, observed=foreign[:5], mech=mech); ok = False
    return ok

def check_case(run, case, tier='quick'):
    import random
    rng = random.Random(case['hseed'])
    name, path = gstream.materialise(case['spec'], 'c08')
    # session names are free text: dates, versions, host names ... (dots, letters of '.sav')
    sn = session.new_session_name('c08') + rng.choice(['', '', '.02', '.run.a', '_v', '.s', '.sav', '.saved.2'])
    try:
        flags = gstream.flags_of(case)
        lang = oracles.Language(oracles.Disk(path), flags['skip_brute'], flags['skip_case'])
        size = lang.size()
        if size < 3 or size > 600:
            run.inconc('language outside 3..600'); return
        repo.scratch()
        from lib_guesser.priority_queue import PcfgQueue
        pcfg = monitors.load_pcfg(path, 'x', skip_brute=flags['skip_brute'], skip_case=flags['skip_case'])
        q = PcfgQueue(pcfg)
        U = []
        while True:
            it = q.next()
            if it is None:
                break
            U.append((monitors.pt_key(it['pt']) + (it['base_prob'],), it['prob']))
        run.ev('POP', len(U))
        probs = [p for k, p in U]
        ks = list(range(len(U))) if len(U) <= 400 else sorted(rng.sample(range(len(U)), 40))
        for k in ks:
            px = probs[k]
            # the state the tool itself writes at this point: a fresh queue popped k+1 times (the last pop is the one noticed with the quit flag up: saved,
            # not generated), its own update_save_config(), round-tripped through the text of a .sav file
            q1 = PcfgQueue(pcfg)
            for _ in range(k + 1):
                q1.next()
            c1 = configparser.ConfigParser(); c1.add_section('guessing_info')
            q1.update_save_config(c1)
            buf = io.StringIO(); c1.write(buf)
            cfg = configparser.ConfigParser(); cfg.read_string(buf.getvalue())
            run.ev('save_states_written_by_the_queue')
            q2 = PcfgQueue(pcfg, cfg)
            R = []
            while True:
                it = q2.next()
                if it is None:
                    break
                R.append((monitors.pt_key(it['pt']) + (it['base_prob'],), it['prob']))
                if len(R) > 3 * len(U) + 10:
                    break
            run.ev('POP', len(R)); run.ev('restores')
            ok = judge(run, case, U, [(U[:k + 1], True), (R, False)], [px], f'cut k={k} (restore path)')
            tie = probs.count(px) > 1
            run.case(h([case['spec'], k]) if tie else None)
            if not ok:
                return
        # ---- histories through the real main(), keypress thread and .sav file (they also write every guess: keep those runs bounded)
        est = 0
        for bi, labs, bp, s_ in lang.base:
            k_ = 1
            for l in labs:
                k_ *= sum(len(g[1]) for g in lang.groups.get(l, []))
            est += k_
        if est > 200000:
            run.ev('main_histories_skipped_large_stream')
            run.sample({'base': case['spec']['base'], 'flags': case['flags'], 'U_len': len(U), 'cut_points': len(ks), 'distinct_probs': len(set(probs))})
            return
        argv = ['-r', name, '-s', sn] + (['--skip_brute'] if flags['skip_brute'] else []) + (['--all_lower'] if flags['skip_case'] else [])
        for hidx in range(MAIN_HISTORIES[tier]):
            session.drop_session(sn)
            ncyc = rng.randint(1, 4) if tier == 'quick' else rng.choice([1, 2, 3, 4, 6, 9])
            runs, saved = [], []
            remaining = len(U)
            uuid_swap = (hidx == 0 and rng.random() < 0.5)
            for c in range(ncyc + 1):
                last = (c == ncyc)
                cut = None if last else rng.randint(1, max(1, min(remaining, len(U)) - 1))
                mode = rng.choice(['POP', 'POP', 'GUESS'])
                fired = {'ok': None}
                def trig(ev, ctx, cut=cut, mode=mode, fired=fired):
                    if cut is None or fired['ok'] is not None:
                        return
                    if ev[0] == 'POP' and mode == 'POP' and ev[1] == cut:
                        fired['ok'] = ctx.deliver('q')
                    elif ev[0] == 'GUESS' and mode == 'GUESS' and ev[3] + 1 == cut:
                        fired['ok'] = ctx.deliver('q')
                if c == 1 and uuid_swap:
                    # retrained ruleset under the same name: the session must be refused
                    spec2 = dict(case['spec'], uuid='ffffffff-0000-4000-8000-' + '%012x' % rng.getrandbits(48))
                    rulesets.write_ruleset(path, spec2)
                    how = rng.choice(['other', 'other', 'blank', 'missing'])
                    if how != 'other':
                        # the ruleset now under that name carries no UUID at all (an empty `uuid =` line, or none): it is not the ruleset of the saved session
                        cfgp = os.path.join(path, 'config.ini')
                        lines = open(cfgp, encoding='utf-8').read().split('\n')
                        lines = [('uuid = ' if how == 'blank' else None) if l.startswith('uuid') else l for l in lines]
                        open(cfgp, 'w', encoding='utf-8').write('\n'.join(l for l in lines if l is not None))
                        run.ev('loads_on_a_ruleset_without_a_uuid')
                    r = session.run_main(['-r', name, '-s', sn, '--load'])
                    run.ev('uuid_mismatch_loads')
                    if r.guesses or r.pops or (how == 'other' and 'UUID' not in r.stderr):
                        run.violation('session restored although the ruleset UUID differs from the saved one', case,
                                      observed={'guesses': r.guesses[:5], 'stderr_tail': r.stderr[-300:]})
                        return
                    rulesets.write_ruleset(path, case['spec'])
                extra = []
                if c and rng.random() < 0.3:
                    # the flags of a resumed session come from the save file: repeating none of them, or contradicting them, changes nothing
                    extra = rng.choice([['--skip_brute'], ['--all_lower'], ['--skip_brute', '--all_lower']])
                    run.ev('resumes_with_other_flags')
                argv_c = (['-r', name, '-s', sn] + extra) if (c and rng.random() < 0.5) else (argv + extra)
                typed_ahead = None
                if c >= 1 and not last and rng.random() < 0.2:
                    # the quit request is already waiting on standard input when the resumed run starts: whenever the tool gets to see it - while it rebuilds its
                    # queue or at its first look at the flag - the interrupted history owes the same pre-terminals
                    typed_ahead = session.Stdin()
                    typed_ahead.feed('q')
                    fired['ok'] = True
                    run.ev('resumed_runs_with_a_quit_typed_ahead')
                r = session.run_main(argv_c + (['--load'] if c else []), trigger=trig, max_guesses=4 * est + 1000, stdin=typed_ahead)
                run.ev('main_runs'); run.ev('POP', len(r.pops))
                if r.exc is not None:
                    run.violation(f'main() raised {r.exc!r} in cycle {c}', case, observed=r.stderr[-500:]); return
                pops = [(p['key'] + (p['base_prob'],), p['prob']) for p in r.pops]
                quit_ = fired['ok'] is not None and len(pops) > 0 and not ('Done processing' in r.stderr)
                if cut is not None and fired['ok'] is False:
                    run.inconc('keypress thread did not act on q within the watchdog'); break
                if fired['ok'] is None and cut is not None:
                    # the run ended before the cut was reached (the previous cut was near the end): treat as final run
                    runs.append((pops, False)); break
                if 'Done processing' in r.stderr:
                    # quit requested while the final pre-terminal was being generated: the run completed (outside C08, see assumptions)
                    runs.append((pops, False)); break
                runs.append((pops, quit_))
                if quit_:
                    saved.append(pops[-1][1])
                    sv = session.read_sav(sn)
                    if not sv.has_section('guessing_info'):
                        # the save file is not where this harness looks for it (<session>.sav next to the program): where the tool keeps it is its own
                        # business; whether the session resumes correctly is judged below from what the resumed runs emit
                        run.ev('save_file_not_found_under_expected_name')
                    else:
                        got = sv.getfloat('guessing_info', 'max_probability')
                        run.ev('SAVE')
                        if got != pops[-1][1]:
                            run.violation('saved max_probability differs from the probability of the pre-terminal popped when the quit was noticed', case,
                                          observed=repr(got), expected=repr(pops[-1][1])); return
                    remaining = max(2, len(U) - sum(len(x[0]) for x in runs) + len(runs))
                if last:
                    break
                if quit_ and rng.random() < 0.3 and len(U) >= 4:
                    # between this quit and the resume another session on the same ruleset, whose name differs in the last character only, is started and quit
                    sib = sn[:-1] + ('3' if sn[-1] != '3' else '4')
                    k2 = rng.randint(1, len(U) - 1)
                    f2 = {}
                    def trig2(ev, ctx, k2=k2, f2=f2):
                        if ev[0] == 'POP' and ev[1] == k2 and 'x' not in f2:
                            f2['x'] = ctx.deliver('q')
                    try:
                        session.run_main(['-r', name, '-s', sib] + argv[4:], trigger=trig2, max_guesses=4 * est + 1000)
                        run.ev('sibling_sessions_interleaved')
                    finally:
                        session.drop_session(sib)
            if runs and not runs[-1][1]:
                ok = judge(run, case, U, runs, saved, f'history via main() cuts={[len(x[0]) for x in runs]}')
                run.ev('histories'); run.add_to_set('history_shapes', repr([len(x[0]) for x in runs][:4]))
                if not ok:
                    return
        run.sample({'base': case['spec']['base'], 'flags': case['flags'], 'U_len': len(U), 'cut_points': len(ks),
                    'distinct_probs': len(set(probs))})
    finally:
        session.drop_session(sn)
        repo.drop_rules(name)

def deep_spec(rng):
    """A long variable (12 000 entries of pairwise different probability): restoring a session that was interrupted deep inside it walks
    thousands of index increments (the restore is recursive)."""
    n = rng.choice([11000, 12000, 13000])
    tot = n * (n + 1) // 2
    rows = [['%05d' % i, (n - i) / tot] for i in range(n)]
    d2 = [[v, p] for v, p in zip(['11', '22'], [0.6, 0.4])]
    return {'encoding': 'utf-8', 'uuid': 'deep-%08x' % rng.getrandbits(32), 'base': [['D5', 0.75], ['D2', 0.25]], 'prince': [], 'terms': {'D5': rows, 'D2': d2}, 'omen': None}

def check_deep(run, case):
    """Cut points far into a long session of a large grammar (restore path only)."""
    import random
    rng = random.Random(case['hseed'])
    name, path = gstream.materialise(case['spec'], 'c08d')
    try:
        repo.scratch()
        from lib_guesser.priority_queue import PcfgQueue
        pcfg = monitors.load_pcfg(path, 'x')
        q = PcfgQueue(pcfg)
        U = []
        while True:
            it = q.next()
            if it is None:
                break
            U.append((monitors.pt_key(it['pt']) + (it['base_prob'],), it['prob']))
        run.ev('POP', len(U))
        n = len(U)
        for k in sorted({2000, n // 2, n - 2500, n - 1500, n - 3, rng.randrange(9000, n - 1)}):
            px = U[k][1]
            err = io.StringIO()
            import contextlib
            with contextlib.redirect_stderr(err):
                q2 = PcfgQueue(pcfg, save_cfg(px))
            R = []
            while True:
                it = q2.next()
                if it is None:
                    break
                R.append((monitors.pt_key(it['pt']) + (it['base_prob'],), it['prob']))
            run.ev('POP', len(R)); run.ev('restores'); run.ev('deep_restores')
            if not judge(run, case, U, [(U[:k + 1], True), (R, False)], [px], f'deep cut k={k} of {n} (12 000-entry variable; stderr: {err.getvalue()[:80]!r})'):
                return
            run.case(h(['deep', len(U), k]))
        run.sample({'deep_session': True, 'pre_terminals': n, 'base': case['spec']['base']}, force=True)
    finally:
        repo.drop_rules(name)

def stress_spec(rng):
    """~150 000 guesses: long enough (about a second) for a quit typed at a random moment to land somewhere in the middle."""
    def rows(vals, ng):
        return rulesets.rows_grouped(rng, vals, ng, rng.choice(['random', 'counts', 'decimal']))
    d2 = ['%02d' % i for i in rng.sample(range(100), 40)]
    d3 = ['%03d' % i for i in rng.sample(range(1000), 100)]
    a3 = rng.sample(['cat', 'dog', 'abc', 'fox', 'sun', 'pie', 'owl', 'кот', 'été', 'bee', 'ant', 'elk'], 10)
    terms = {'D2': rows(d2, 8), 'D3': rows(d3, 10), 'A3': rows(a3, 5), 'C3': rows(['LLL', 'ULL', 'UUU'], rng.choice([2, 3])), 'O1': rows(list('!@#$%.'), 3)}
    base = [['A3D2D3', 0.4], ['A3D3O1', 0.35], ['D2O1', 0.15], ['A3', 0.1]]
    return {'encoding': 'utf-8', 'uuid': 'stress-%08x' % rng.getrandbits(32), 'base': base, 'prince': [], 'terms': terms, 'omen': None}

def check_cli_stress(run, case):
    """Real processes, real timing: q is typed into the pipe of the running CLI after a random delay, the session is resumed with --load
    (possibly interrupted again); only the stdout streams and the .sav file are judged."""
    import random, time
    from .. import cli
    from .c15 import pops_with_guesses
    rng = random.Random(case['hseed'])
    name, path = gstream.materialise(case['spec'], 'c08s')
    sn = session.new_session_name('c08s')
    try:
        U = session.run_main(['-r', name, '-s', sn + 'ref'])
        Upg = pops_with_guesses(U)
        need = Counter(U.guesses)
        prob_of = {}
        for key, prob, gs in Upg:
            for g in gs:
                prob_of.setdefault(g, set()).add(prob)
        streams, saved = [], []
        for cyc in range(rng.randint(1, 3) + 1):
            last = False
            delay = rng.uniform(0.05, 0.9)
            args = ['-r', name, '-s', sn] + (['--load'] if cyc else [])
            # every process of the history runs under another hash seed, as separate invocations do by default
            out, err, rc, to = cli.run_cli('pcfg_guesser.py', args, stdin_mode='timed', data=[(delay, b'q\n')], timeout=300, max_out=256 << 20, hashseed=str(1 + 7919 * cyc))
            run.ev('cli_runs'); run.ev('cli_stress_runs')
            if to:
                run.inconc('cli watchdog'); return
            lines = out.decode('utf-8').split('\n')
            if lines[-1] != '':
                run.violation('stress: stdout of an interrupted run does not end with a complete line', case, observed=lines[-1][:50]); return
            lines.pop()
            streams.append(lines)
            done = b'Done processing' in err
            if done:
                break
            cfg = session.read_sav(sn)
            saved.append(cfg.getfloat('guessing_info', 'max_probability'))
            run.ev('cli_quits_mid_run')
        else:
            # still interrupted after the last cycle: finish it
            out, err, rc, to = cli.run_cli('pcfg_guesser.py', ['-r', name, '-s', sn, '--load'], stdin_mode='open', timeout=300, max_out=256 << 20, hashseed='424242')
            run.ev('cli_runs')
            if to:
                run.inconc('cli watchdog'); return
            streams.append(out.decode('utf-8').split('\n')[:-1])
        if streams[0] != U.guesses[:len(streams[0])]:
            run.violation('stress: the interrupted first run is not a prefix of the uninterrupted stream', case); return
        have = Counter()
        for st in streams:
            have.update(st)
        lost = need - have
        if lost:
            run.violation(f'stress (real processes, q after random delays): {sum(lost.values())} guesses lost over {len(streams)} runs', case,
                          observed={'lost': list(lost.elements())[:6], 'saved_positions': [repr(x) for x in saved], 'run_lengths': [len(x) for x in streams]}); return
        surplus = have - need
        bad = [g for g in surplus if not (prob_of.get(g, set()) & set(saved))]
        if bad:
            run.violation('stress: guesses repeated although their pre-terminal does not tie with any saved position', case,
                          observed={'repeated': bad[:6], 'saved_positions': [repr(x) for x in saved]}); return
        run.case(h(['stress', case['spec']['uuid'], [len(x) for x in streams]]) if len(streams) >= 2 else None)
        run.sample({'stress': case.get('label', 'cli'), 'total_guesses': len(U.guesses), 'run_lengths': [len(x) for x in streams], 'saved_positions': [repr(x) for x in saved]}, force=True)
    finally:
        for f in os.listdir(repo.scratch()):
            if f.startswith(sn) and f.endswith(('.sav', '.omn')):
                os.remove(os.path.join(repo.scratch(), f))
        repo.drop_rules(name)

def run(run, rng):
    run.required_events = ['POP', 'restores', 'main_runs', 'SAVE', 'histories', 'cli_stress_runs', 'deep_restores']
    run.min_distinct = 20
    run.exhaustive = True
    run.extra['exhaustive_scope'] = 'all cut points k of every explored ruleset with <= 400 pre-terminals (restore path); histories via main() are sampled'
    run.assumptions = ['rulesets without Markov structure (C15 covers interrupted Markov levels)',
                       'a quit requested while the FINAL pre-terminal is being generated is not honoured (the run completes, "Done processing"); resuming a completed session is outside C08',
                       'the restore path is driven with the same two numbers the real _save_session writes (checked against the .sav in the main() histories)']
    for i in range(N[run.tier]):
        case = gen_case(rng)
        run.guard(case, check_case, run.tier, seconds=120)
    if run.shard[0] == 1 or run.tier == 'thorough':
        run.guard({'spec': deep_spec(rng), 'hseed': rng.getrandbits(32), 'deep': True}, check_deep, seconds=600)
    nstress = (1 if run.shard[0] == 0 else 0) if run.tier == 'quick' else 2
    for i in range(nstress):
        run.guard({'spec': stress_spec(rng), 'hseed': rng.getrandbits(32), 'stress': True}, check_cli_stress, seconds=900)

def replay(run, case):
    if case['case'].get('deep'):
        check_deep(run, case['case'])
    elif case['case'].get('stress'):
        check_cli_stress(run, case['case'])
    else:
        check_case(run, case['case'], 'thorough')
