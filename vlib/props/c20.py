"""C20 — edit_rules only removes base structures, and only those that fail the filter."""
import os, re, sys, io, contextlib, hashlib, shutil, itertools
from collections import Counter
from .. import repo, rulesets, oracles, monitors, gstream, trained, cli
from ..evidence import h

LEVEL = 'exploration'
RULE = ('trained and generated rulesets (multi-digit lengths, Y, X, K, the Markov structure) x combinations of --min_length / --max_length / --terminal_set / 0-2 '
        '--regex, with and without --copy, and --copy asked again for a name that already exists (the source must stay untouched whatever the tool does); the real edit_rules() runs under a directory snapshot (sha256 of every file before/after) and a sys.addaudithook log of '
        'files opened for writing / removed; the new grammar.txt must equal the original lines filtered by a reference implementation of the three predicates on '
        'independently tokenised labels (order and probability text byte-identical); every non-Markov guess of the edited ruleset must respect the bounds. '
        'non-trivial = filter that removes some but not all structures; distinct by (ruleset hash, options)')
SHARDS = {'quick': 4, 'thorough': 16}
N = {'quick': 60, 'thorough': 1500}

AUDIT = {'on': False, 'log': []}
_hook_installed = [False]
def _audit(event, args):
    if not AUDIT['on']:
        return
    try:
        if event == 'open':
            path, mode = args[0], args[1]
            if isinstance(mode, str) and any(c in mode for c in 'wax+'):
                AUDIT['log'].append(('open-write', str(path)))
        elif event in ('os.remove', 'os.unlink', 'os.rename', 'os.rmdir', 'shutil.rmtree', 'os.truncate'):
            AUDIT['log'].append((event, str(args[0])))
        elif event in ('shutil.copytree', 'shutil.copyfile', 'os.mkdir'):
            AUDIT['log'].append((event, str(args[0]) if event != 'shutil.copyfile' else str(args[1])))
    except Exception:
        pass

def snapshot(d):
    out = {}
    for root, dirs, files in os.walk(d):
        for f in files:
            p = os.path.join(root, f)
            out[os.path.relpath(p, d)] = hashlib.sha256(open(p, 'rb').read()).hexdigest()
    return out

def struct_len(tokens):
    """(length without context segments, has_markov, number of context segments).  A context string has 2-4 characters whatever its label says."""
    L, m, x = 0, False, 0
    for t in tokens:
        k = t[0]
        if k in 'ADOK':
            L += int(t[1:])
        elif k == 'Y':
            L += 4
        elif k == 'M':
            m = True
        elif k == 'X':
            x += 1
    return L, m, x

def reference_filter(lines, opts):
    """lines: [(struct, probtext)].  Returns (kept indices, undecided indices [structures with X under a length filter])."""
    keep, undecided = [], []
    for i, (s, p) in enumerate(lines):
        toks = oracles.tokens(s)
        ok = True
        und = False
        if opts.get('min_length') or opts.get('max_length'):
            L, m, x = struct_len(toks)
            if m and L == 0 and not x:
                pass                          # the Markov structure has no fixed length: the length filter does not apply
            else:
                # a structure fails the filter when one of its guesses could fall outside the bounds: shortest possible length against the
                # minimum, longest possible length against the maximum (a context segment contributes 2..4 characters)
                if opts.get('min_length') and L + 2 * x < opts['min_length']:
                    ok = False
                if opts.get('max_length') and L + 4 * x > opts['max_length']:
                    ok = False
        if opts.get('terminal_set'):
            if any(t[0] not in opts['terminal_set'] for t in toks):
                ok = False
        for rx in opts.get('regex') or []:
            if not re.search(rx, s):
                ok = False
        if ok and und:
            undecided.append(i)
        elif ok:
            keep.append(i)
    return keep, undecided

def gen_case(rng):
    if rng.random() < 0.35:
        base = {'kind': 'trained', 'train': trained.gen_train_case(rng, max_len_choices=(21,), coverages=(0.6, 1.0, 0.3))}
    else:
        labels = rng.sample(['A1', 'A3', 'A4', 'A12', 'D1', 'D2', 'D10', 'O1', 'O2', 'K4', 'Y1', 'X1'], rng.randint(3, 6))
        spec = rulesets.gen_spec(rng, with_m=rng.random() < 0.5, labels=labels, n_base=rng.randint(3, 7), max_len=4, min_groups=1, max_groups=2, max_per_group=2, pool='counts')
        if rng.random() < 0.35:
            # a big training list: most base structures have probabilities far below 1e-4, which repr() writes in exponent notation (6.5e-05)
            tail = [b for b in spec['base'] if b[0] != 'M'][1:]
            for b in tail:
                b[1] = b[1] * rng.choice([1e-5, 3.7e-6, 1e-7, 2.5e-5])
            spec['base'].sort(key=lambda r: -r[1])
        base = {'kind': 'synthetic', 'spec': spec}
    opts = {}
    if rng.random() < 0.7:
        opts['min_length'] = rng.choice([0, 0, 1, 3, 5, 8, 12])
        opts['max_length'] = rng.choice([0, 0, 4, 6, 8, 10, 16])
    if rng.random() < 0.4:
        opts['terminal_set'] = rng.sample(list('ADOKYXM'), rng.randint(1, 6))
    if rng.random() < 0.4:
        opts['regex'] = rng.sample(['A', 'D', '^A', 'D[0-9]+$', '[OK]', 'A[0-9]+D', '^[^M]', 'Y1|X1', '^M$|A', r'^A\d+', r'\d\d', r'^(?!.*\d\d)', r'[A-Z]\d$', r'^\w+$', r'\D1', r'(?i)^a', r'^[ad0-9]+$'], rng.randint(1, 2))
    base.update({'opts': opts, 'copy': rng.random() < 0.5, 'hseed': rng.getrandbits(32)})
    # history: the same --copy name asked for again (re-run of the command, or a second tuning of the copy) with a filter that would remove something
    base['symlinked'] = rng.random() < 0.3
    base['cwd_decoy'] = rng.random() < 0.3
    if rng.random() < 0.2:
        base['stray_backup'] = rng.choice(['.bak', '.bak', '.orig', '~', '.old'])
    if rng.random() < 0.5:
        base['uni_name'] = rng.choice(['_José', '_пароли', '_ñ', '_中'])
        base['narrow_stdout'] = rng.choice([None, 'ascii', 'ascii', 'latin-1'])
    base['again'] = rng.choice([None, None, {'max_length': rng.choice([4, 6, 8])}, {'min_length': rng.choice([3, 5])}, {'terminal_set': rng.sample(list('ADOKYX'), 2)}, {'regex': ['^A']}, dict(opts)])
    return base

def check_case(run, case, use_cli=False):
    if not _hook_installed[0]:
        sys.addaudithook(_audit); _hook_installed[0] = True
    if case['kind'] == 'trained':
        name, path, res = trained.train_case(case['train'], 'c20')
        if not res.ok:
            repo.drop_rules(name); run.ev('trainings_not_completed'); run.inconc('training did not complete'); return
    else:
        name, path = gstream.materialise(case['spec'], 'c20')
    rules_dir = os.path.join(repo.scratch(), 'Rules')
    narrow = None
    if use_cli and case.get('uni_name'):
        # rule names are free text: a non-ASCII one, and (half of the time) a standard output that cannot represent it.  The tool mentions the names in its
        # messages; if a message cannot be printed the run may fail, but a failed run must not leave the ruleset half edited
        new = name + case['uni_name']
        os.rename(path, os.path.join(rules_dir, new))
        name, path = new, os.path.join(rules_dir, new)
        narrow = case.get('narrow_stdout')
    copyname = name + '_copy'
    shared = None
    if case.get('symlinked') and case['copy']:
        # a ruleset that shares its base-structure list with another place through a symbolic link (one list, several rulesets): --copy must give a copy of
        # its own - what the source's link points to stays untouched
        shared = os.path.join(rules_dir, name + '_shared_grammar.txt')
        g0 = os.path.join(path, 'Grammar', 'grammar.txt')
        os.replace(g0, shared)
        os.symlink(shared, g0)
    decoy = None
    if use_cli and case.get('cwd_decoy'):
        # the directory the tool is started from holds a folder with the name of the ruleset (an older copy of it, kept outside Rules/): `--rule NAME` means
        # Rules/NAME
        decoy = os.path.join(repo.scratch(), name)
        if not os.path.exists(decoy):
            shutil.copytree(path, decoy)
            with open(os.path.join(decoy, 'Grammar', 'grammar.txt'), 'ab') as f_:
                f_.write(b'K4K4K4\t0.001\n')
        else:
            decoy = None
    if case.get('stray_backup'):
        # the user's own safety copy of an older state of the list, kept beside it under a usual name: another file of the ruleset, nothing the tool owns
        g_ = os.path.join(path, 'Grammar', 'grammar.txt')
        with open(g_, 'rb') as f_:
            cur = f_.read()
        with open(g_ + case['stray_backup'], 'wb') as f_:
            f_.write(b'A9D9\t0.5\n' + cur + b'M\t0.25\nK4K4\t0.125\n')
    try:
        repo.scratch()
        import edit_rules as er
        opts = case['opts']
        before = snapshot(path)
        orig_lines = oracles.read_rows(os.path.join(path, 'Grammar', 'grammar.txt'), 'ascii')
        orig_bytes = open(os.path.join(path, 'Grammar', 'grammar.txt'), 'rb').read()
        target = os.path.join(rules_dir, copyname) if case['copy'] else path
        if use_cli:
            args = ['-r', name] + (['--copy', copyname] if case['copy'] else [])
            if 'min_length' in opts:
                args += ['--min_length', str(opts['min_length']), '--max_length', str(opts['max_length'])]
            if opts.get('terminal_set'):
                args += ['--terminal_set', ','.join(x.lower() for x in opts['terminal_set'])]
            if opts.get('regex'):
                args += ['--regex', ','.join(opts['regex'])]
            out, err, rc, to = cli.run_cli('edit_rules.py', args, stdin_mode='devnull', env={'PYTHONIOENCODING': narrow} if narrow else None)
            run.ev('cli_runs')
            if narrow:
                run.ev('cli_runs_with_a_narrow_stdout')
            if not to and rc != 0 and narrow:
                # could not print a message: acceptable, provided nothing was changed (in place: the ruleset is what it was; --copy: source untouched and the
                # copy, if it was made, still holds the unedited list)
                now = snapshot(path)
                if now != before:
                    ch = sorted(k for k in set(before) | set(now) if before.get(k) != now.get(k))
                    run.violation(f'edit_rules.py {args} failed under a {narrow} standard output (rc {rc}) and left the ruleset changed: {ch[:4]} '
                                  f'(grammar.txt now {os.path.getsize(os.path.join(path, "Grammar", "grammar.txt"))} bytes, was {len(orig_bytes)})', case,
                                  observed=err[-200:].decode('utf-8', 'replace')); return
                if case['copy'] and os.path.exists(os.path.join(target, 'Grammar', 'grammar.txt')) and open(os.path.join(target, 'Grammar', 'grammar.txt'), 'rb').read() not in (orig_bytes,):
                    new_lines_ = oracles.read_rows(os.path.join(target, 'Grammar', 'grammar.txt'), 'ascii')
                    keep_, _u = reference_filter(orig_lines, opts)
                    if new_lines_ != [orig_lines[i] for i in keep_]:
                        run.violation(f'edit_rules.py {args} failed under a {narrow} standard output (rc {rc}) and left a half-edited copy', case, observed=new_lines_[:6]); return
                run.ev('failed_runs_that_changed_nothing')
                return
            if to or rc != 0:
                run.violation(f'edit_rules.py {args} failed (rc {rc})', case, observed=err[-300:].decode('utf-8', 'replace')); return
            log = []
        else:
            cfg = {'rule': name, 'copy': copyname if case['copy'] else None, 'rules_dir': rules_dir, 'min_length': opts.get('min_length', 0),
                   'max_length': opts.get('max_length', 0), 'terminal_set': opts.get('terminal_set') or False}
            if opts.get('regex'):
                cfg['regex'] = list(opts['regex'])
            AUDIT['log'] = []; AUDIT['on'] = True
            try:
                with contextlib.redirect_stdout(io.StringIO()):
                    er.edit_rules(cfg)
            except Exception as e:
                AUDIT['on'] = False
                run.violation(f'edit_rules raised {type(e).__name__}: {e!s:.200} for options {opts}', case); return
            finally:
                AUDIT['on'] = False
            log = list(AUDIT['log'])
            run.ev('audit_events', len(log))
        run.ev('edits')
        after_src = snapshot(path)
        after_tgt = snapshot(target)
        # ---- nothing but the target's grammar.txt may change
        g = os.path.join('Grammar', 'grammar.txt')
        if case['copy']:
            if after_src != before:
                run.violation('--copy: the source ruleset was modified', case, observed=sorted(k for k in set(before) | set(after_src) if before.get(k) != after_src.get(k))); return
        changed = sorted(k for k in set(before) | set(after_tgt) if before.get(k) != after_tgt.get(k) and k != g)
        if changed:
            run.violation(f'edit_rules touched files other than Grammar/grammar.txt: {changed[:5]}', case, observed=changed); return
        # the audit log adds what a before/after snapshot cannot see: a file of some ruleset that was written / removed / renamed and restored, or a write into
        # another ruleset.  Scratch files the tool creates for itself (and removes again) are not "another file touched": only paths under Rules/ that existed
        # before the run, or that belong to a ruleset other than the target, count.
        tgt = os.path.abspath(target) + os.sep
        rules_root = os.path.abspath(rules_dir) + os.sep
        for kind, p in log:
            ap = os.path.abspath(p)
            if not ap.startswith(rules_root) or kind in ('shutil.copytree', 'shutil.copyfile', 'os.mkdir'):
                continue
            inside = ap.startswith(tgt)
            rel = os.path.relpath(ap, os.path.abspath(target)) if inside else None
            if inside and case['copy']:
                continue                      # the copy itself is being created: every file of it is written
            existed = inside and (rel in before)
            if (not inside) or (existed and rel != g):
                run.violation(f'edit_rules performed {kind} on {ap}' + ('' if inside else ' (outside the ruleset being edited)'), case, observed=log[:8]); return
        # ---- the new list is the filtered old list
        new_bytes = open(os.path.join(target, g), 'rb').read()
        new_lines = oracles.read_rows(os.path.join(target, g), 'ascii')
        keep, undecided = reference_filter(orig_lines, opts)
        must = [orig_lines[i] for i in keep]
        may = set(orig_lines[i] for i in undecided)
        got_wo_may = [l for l in new_lines if l not in may]
        if got_wo_may != must:
            lost = [l for l in must if l not in new_lines][:4]; extra = [l for l in new_lines if l not in must and l not in may][:4]
            run.violation(f'options {opts}: edited base-structure list is not the original list minus the failing structures (wrongly removed {lost}, wrongly kept/changed {extra})',
                          case, observed=new_lines[:8], expected=must[:8]); return
        if not opts.get('min_length') and not opts.get('max_length') and not opts.get('terminal_set') and not opts.get('regex') and new_bytes != orig_bytes:
            run.violation('edit_rules without any filter changed grammar.txt', case); return
        # order of the survivors, including the undecided ones, must be the original order
        it = iter(orig_lines)
        if not all(any(l == o for o in it) for l in new_lines):
            run.violation('survivors are not in their original order / a line was rewritten', case, observed=new_lines[:8]); return
        run.ev('lists_compared')
        # ---- every non-Markov guess of the edited ruleset respects the bounds
        mn, mx = opts.get('min_length', 0), opts.get('max_length', 0)
        if (mn or mx) and new_lines:
            lang = oracles.Language(oracles.Disk(target), skip_brute=True)
            if lang.base and lang.size() <= 3000:
                bad = {}
                def expand(rec, item, pcfg):
                    lines, n = monitors.record_guesses(pcfg, item['pt'])
                    for w in lines:
                        if (mn and len(w) < mn) or (mx and len(w) > mx):
                            bad.setdefault(rec['key'][0], w)
                    run.ev('GUESS', len(lines))
                gstream.run_queue(target, dict(skip_brute=True, skip_case=False, folder='Grammar'), expand=expand)
                for labs, w in bad.items():
                    mech = None
                    run.violation(f'edited ruleset (bounds {mn}..{mx or "inf"}) still generates {w!r} (length {len(w)}) from structure {"".join(l for l in labs if l[0] != "C")}', case, mech=mech)
                    if mech is None:
                        return
                run.ev('guess_length_checks')
        # ---- history: --copy into a name that already exists.  Whatever the tool does then (today: it aborts with FileExistsError), the source stays untouched
        if case['copy'] and case.get('again'):
            o2 = case['again']
            if use_cli:
                args = ['-r', name, '--copy', copyname]
                if 'min_length' in o2 or 'max_length' in o2:
                    args += ['--min_length', str(o2.get('min_length', 0)), '--max_length', str(o2.get('max_length', 0))]
                if o2.get('terminal_set'):
                    args += ['--terminal_set', ','.join(x.lower() for x in o2['terminal_set'])]
                if o2.get('regex'):
                    args += ['--regex', ','.join(o2['regex'])]
                out, err, rc, to = cli.run_cli('edit_rules.py', args, stdin_mode='devnull')
                run.ev('cli_runs')
                outcome = f'rc {rc}'
            else:
                cfg = {'rule': name, 'copy': copyname, 'rules_dir': rules_dir, 'min_length': o2.get('min_length', 0), 'max_length': o2.get('max_length', 0),
                       'terminal_set': o2.get('terminal_set') or False}
                if o2.get('regex'):
                    cfg['regex'] = list(o2['regex'])
                AUDIT['log'] = []; AUDIT['on'] = True
                outcome = 'returned'
                try:
                    with contextlib.redirect_stdout(io.StringIO()):
                        er.edit_rules(cfg)
                except Exception as e:
                    outcome = type(e).__name__
                finally:
                    AUDIT['on'] = False
                for kind, p in AUDIT['log']:
                    ap = os.path.abspath(p)
                    if kind != 'shutil.copytree' and (ap + os.sep).startswith(os.path.abspath(path) + os.sep):
                        run.violation(f'--copy into an existing name ({outcome}): edit_rules performed {kind} on the source ruleset: {ap}', case, observed=AUDIT['log'][:8]); return
            run.ev('copy_exists_runs')
            run.add_to_set('copy_exists_outcomes', outcome)
            again_src = snapshot(path)
            if again_src != before:
                run.violation(f'--copy into an existing name ({outcome}, options {o2}): the source ruleset was modified', case,
                              observed=sorted(k for k in set(before) | set(again_src) if before.get(k) != again_src.get(k))); return
        removed = len(orig_lines) - len(new_lines)
        run.case(h([case.get('spec', case.get('train')), opts, case['copy']]) if 0 < removed < len(orig_lines) else None)
        run.sample({'kind': case['kind'], 'opts': opts, 'copy': case['copy'], 'before': [s for s, p in orig_lines][:8], 'after': [s for s, p in new_lines][:8],
                    'audit': [k for k, p in log][:6]})
    finally:
        repo.drop_rules(name)
        repo.drop_rules(copyname)
        if shared and os.path.exists(shared):
            os.remove(shared)
        if decoy and os.path.isdir(decoy):
            shutil.rmtree(decoy, ignore_errors=True)

def run(run, rng):
    run.required_events = ['edits', 'lists_compared', 'guess_length_checks', 'audit_events', 'cli_runs', 'copy_exists_runs']
    run.min_distinct = 10
    run.assumptions = ['label lengths <= 999 (the tool tokenises with [A-Z][0-9]{0,3})', 'the Markov structure has no fixed length: a length filter keeps it',
                       'a context (X) segment counts 2 characters against --min_length and 4 against --max_length (every guess of a surviving structure must respect the bounds)',
                       'min/max 0 means "no bound"']
    for i in range(N[run.tier]):
        run.guard(gen_case(rng), check_case, use_cli=(i % 4 == 1), seconds=200)

def replay(run, case):
    check_case(run, case['case'])
