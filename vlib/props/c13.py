"""C13 — a non-zero score is a promise the guesser keeps; e-mail/website classification; score is a function of (string, ruleset)."""
import os, io, contextlib, random
from collections import Counter
from .. import repo, oracles, monitors, gstream, trained, trainlists
from ..evidence import h

LEVEL = 'exploration'
RULE = ('rulesets written by the real trainer from generated lists (as C03); candidates = training passwords + a sample of guesser output + perturbations of both (case '
        'flips, digit/symbol swaps, appended/prepended fragments, e-mail / URL look-alikes) + unrelated strings; every candidate is scored by the real '
        'PCFGPasswordScorer (twice, in different orders, and on a second freshly loaded scorer) and looked up in the language the real guesser emits from the same '
        'ruleset with default flags; the detectors as imported into the scorer are wrapped to record what they found. non-trivial = candidate scored > 0 that is not '
        'a training password; distinct by (ruleset hash, candidate)')
SHARDS = {'quick': 4, 'thorough': 16}
N = {'quick': 25, 'thorough': 700}

def classify(s):
    return None

def perturb(rng, s):
    if not s:
        return 'x'
    i = rng.randrange(len(s))
    r = rng.random()
    if r < 0.25:
        return s[:i] + s[i].swapcase() + s[i + 1:]
    if r < 0.4:
        return s[:i] + rng.choice('0123456789!@#$ ') + s[i + 1:]
    if r < 0.55:
        return s + rng.choice(trainlists.DIGITS + trainlists.SYMS + ['x', 'Z'])
    if r < 0.7:
        return rng.choice(trainlists.DIGITS + trainlists.SYMS + trainlists.WORDS) + s
    if r < 0.8:
        return s.upper() if rng.random() < 0.5 else s.capitalize()
    if r < 0.9:
        return s + rng.choice(['@gmail.com', '.com', 'www.' , '@x.org', '.net/a'])
    return s[:i] + s[i + 1:]

def load_scorer(path, limit=0):
    repo.scratch()
    from lib_scorer.pcfg_password_scorer import PCFGPasswordScorer
    from lib_scorer.grammar_io import load_grammar
    sc = PCFGPasswordScorer(limit=limit)
    buf = io.StringIO()
    with contextlib.redirect_stdout(buf), contextlib.redirect_stderr(buf):
        if not load_grammar(sc, path):
            raise RuntimeError('scorer load_grammar failed: ' + buf.getvalue()[-200:])
        sc.create_multiword_detector()
        sc.create_omen_scorer(path, 9)
    return sc

def check_case(run, case):
    rng = random.Random(case['hseed'])
    name, path, res = trained.train_case(case, 'c13')
    try:
        if not res.ok:
            run.ev('trainings_not_completed'); run.inconc('training did not complete'); return
        # guesser language (default flags, Markov pre-terminals not expanded)
        lang = oracles.Language(oracles.Disk(path))
        est = 0
        for bi, labs, bp, s in lang.base:
            if 'M' in labs:
                continue
            k = 1
            for l in labs:
                k *= sum(len(g[1]) for g in lang.groups.get(l, []))
            est += k
        if est > 300000:
            run.inconc('language above cap'); return
        emitted = {}
        def expand(rec, item, pcfg):
            if rec['key'][0] == ('M',):
                return
            lines, n = monitors.record_guesses(pcfg, item['pt'])
            for g in lines:
                emitted.setdefault(g, []).append(item['prob'])
        gstream.run_queue(path, dict(skip_brute=False, skip_case=False, folder='Grammar'), expand=expand, max_pops=400000)
        run.ev('GUESS', sum(len(v) for v in emitted.values()))
        import lib_scorer.pcfg_password_scorer as sp
        found = {}
        oe, ow = sp.email_detection, sp.website_detection
        def email_rec(section_list):
            r = oe(section_list); found['e'] = list(r[0]); return r
        def web_rec(section_list):
            r = ow(section_list); found['w'] = list(r[0]); return r
        from lib_trainer.detection_rules.keyboard_walk import detect_keyboard_walk as ref_kw
        from lib_trainer.detection_rules.email_detection import email_detection as ref_email
        from lib_trainer.detection_rules.website_detection import website_detection as ref_web
        sc = load_scorer(path)
        train_set = [p for p, k in case['items']]
        guess_sample = rng.sample(sorted(emitted), min(len(emitted), 150))
        cands = list(train_set) + guess_sample
        cands += [perturb(rng, s) for s in rng.choices(train_set + guess_sample, k=200)]
        cands += [trainlists.password(rng, ('ascii', 'cyr', 'lat1'), allow_ew=True) for _ in range(60)]
        cands += ['ǅungla', 'İstanbul1', 'straẞe', 'Σίσυφος', 'a@b.com', 'WWW.X.COM', 'http://a.org/x', 'x@y', 'a.b', '.com', '@', 'q@w.ru1', 'John@Gmail.COM', 'mary@x.Org', 'Www.Site.NET/a']
        cands += [rng.choice([c.upper(), c.title(), c.swapcase()]) for c in rng.sample(trainlists.EMAILS + trainlists.SITES, 4)]
        # other code-point sequences for "the same" text: decomposed spellings (base letter + combining mark) and compatibility / singleton look-alikes of
        # training passwords and guesses.  They are different strings: the guesser emits the stored one only
        import unicodedata
        for c in (train_set + guess_sample)[:400]:
            d = unicodedata.normalize('NFD', c)
            if d != c:
                cands.append(d)
            k_ = c.replace('K', '\u212a').replace('Å', '\u212b').replace('Ω', '\u2126')
            if k_ != c:
                cands.append(k_)
            if len(cands) > 1200:
                break
        # digits of other scripts in place of the ASCII digits of a derivable string (full-width forms, Arabic-Indic, Thai): other characters, other strings
        for c in rng.sample([x for x in train_set + guess_sample if any(ch in '0123456789' for ch in x)] or ['x'], min(12, len([x for x in train_set + guess_sample if any(ch in '0123456789' for ch in x)]) or 1)):
            base0 = rng.choice([0xff10, 0x0660, 0x0e50])
            cands.append(''.join(chr(base0 + ord(ch) - 48) if ch in '0123456789' else ch for ch in c))
        cands = [c for c in dict.fromkeys(cands) if oracles.valid_password(c) and trainlists.encodable(c, case['encoding'])]
        sp.email_detection, sp.website_detection = email_rec, web_rec
        first = {}
        try:
            for s in cands:
                found.clear()
                try:
                    r = sc.parse(s)
                except Exception as e:
                    run.violation(f'scorer raised {type(e).__name__} on {s!r}: {e!s:.150}', case, mech=classify(s)); 
                    if classify(s) is None:
                        return
                    continue
                run.ev('scored')
                run.evals += 1
                first[s] = r
                _, cat, p, omen = r
                fe, fw = found.get('e', []), found.get('w', [])
                # reference detection, run by the harness itself on the same detectors in the order the trainer uses them: what the scorer's own
                # calls saw is only a cross-check (a scorer that never calls a detector must not pass for "nothing detected")
                secs, _, _ = ref_kw(s)
                re_, _ = ref_email(secs)
                rw_ = ref_web(secs)[0]
                if (bool(re_), bool(rw_ and not re_)) != (bool(fe), bool(fw and not fe)):
                    if re_ or rw_:
                        fe, fw = re_, rw_
                        run.ev('detection_only_seen_by_reference')
                if fe:
                    if cat != 'e' or p != 0:
                        run.violation(f'{s!r}: an e-mail address was detected but the result is category {cat!r}, probability {p!r}', case); return
                    run.ev('emails_classified')
                elif fw:
                    if cat != 'w' or p != 0:
                        run.violation(f'{s!r}: a website was detected but the result is category {cat!r}, probability {p!r}', case); return
                    run.ev('websites_classified')
                elif cat in ('e', 'w'):
                    run.violation(f'{s!r}: classified {cat!r} although no e-mail/website was detected', case); return
                if p and p > 0:
                    run.ev('nonzero_scores')
                    probs = emitted.get(s)
                    if not probs:
                        near = [g for g in emitted if g.lower() == s.lower()][:3]
                        run.violation(f'scorer gives {s!r} probability {p!r} but the guesser never emits it from this ruleset', case,
                                      observed={'score': r[1:], 'same_letters_other_case_in_language': near}, mech=classify(s))
                        if classify(s) is None:
                            return
                        continue
                    if not any(abs(q - p) <= 1e-9 * max(p, q) for q in probs):
                        run.violation(f'scorer gives {s!r} probability {p!r}; the pre-terminals emitting it have probabilities {probs[:4]}', case, mech=classify(s))
                        if classify(s) is None:
                            return
                        continue
                    if s not in train_set:
                        run.nontrivial(h([case['items'], s]))
            # history independence: same scorer, shuffled + interleaved; and a second, freshly loaded scorer
            order = list(first)
            rng.shuffle(order)
            sc2 = load_scorer(path)
            for s in order:
                if sc.parse(s) != first[s]:
                    run.violation(f'score of {s!r} changed when asked again in a different order', case, observed=sc.parse(s), expected=first[s]); return
                sc.parse(rng.choice(order))
                if sc2.parse(s) != first[s]:
                    run.violation(f'score of {s!r} differs on a second, freshly loaded scorer', case, observed=sc2.parse(s), expected=first[s]); return
            run.ev('history_independence_checked', len(order))
            # the probability is a function of (string, ruleset): the classification cut-off (--limit) may change the category, never the number
            for lim in rng.sample([1e-12, 1e-6, 0.004, 0.03, 0.2, 0.9], 2):
                scl = load_scorer(path, limit=lim)
                for s in order:
                    r = scl.parse(s)
                    if r[2] != first[s][2] or r[3] != first[s][3]:
                        run.violation(f'probability / OMEN level of {s!r} changes with the classification cut-off --limit {lim}: {r[2]!r} vs {first[s][2]!r}', case,
                                      observed=r, expected=first[s]); return
                run.ev('limit_variants_checked')
        finally:
            sp.email_detection, sp.website_detection = oe, ow
        # ---- the real CLI, results on standard output - also a standard output that cannot represent every candidate.  Every record that names a string and
        # a non-zero probability is a promise about THAT string: it is the in-process score of exactly that string
        if rng.random() < 0.35:
            from .. import cli
            sdir = repo.scratch()
            tf = os.path.join(sdir, f'c13in_{os.getpid()}.txt')
            sub = [c for c in cands if '\r' not in c and not (c.startswith('$HEX[') and c.endswith(']'))][:300]
            open(tf, 'wb').write(b''.join(c.encode(case['encoding']) + b'\n' for c in sub))
            try:
                for oenc in rng.sample(['utf-8', 'cp1252', 'ascii', 'latin-1'], 2):
                    out, err, rc, to = cli.run_cli('password_scorer.py', ['-r', name, '-i', tf], stdin_mode='devnull', env={'PYTHONIOENCODING': oenc}, timeout=120, max_out=16 << 20)
                    run.ev('scorer_cli_runs')
                    if to:
                        continue
                    nrec = 0
                    prev = None
                    for line in out.decode(oenc, 'replace').split('\n'):
                        f = line.split('\t')
                        was, prev = prev, line
                        if len(f) != 4 or (f[0] == '' and was == '[UNPRINTABLE_HEX]'):
                            continue                # the tool's placeholder for a string it cannot print: such a record names no string
                        try:
                            p_, om_ = float(f[2]), int(f[3])
                        except ValueError:
                            continue
                        nrec += 1
                        if p_ > 0:
                            mine = first.get(f[0])
                            if mine is None:
                                mine = sc.parse(f[0]) if oracles.valid_password(f[0]) else (f[0], 'o', 0, -1)
                            if not (abs(mine[2] - p_) <= 1e-9 * max(p_, mine[2])):
                                run.violation(f'password_scorer.py (stdout {oenc}) reports {f[0]!r} with probability {p_!r}; scoring exactly that string gives {mine[2]!r}', case,
                                              observed=line[:120]); return
                    run.ev('scorer_cli_records', nrec)
                # results into a file (-o FILE) that already exists and holds a longer, older result: the file is this run's result - every record in it that
                # names a string with a non-zero probability is the score of that string under THIS ruleset, and the strings are the candidates of this run
                of = os.path.join(sdir, f'c13out_{os.getpid()}.txt')
                stale = ''.join(f'Stale{i}pw!\tp\t{0.001 * (i % 7 + 1)!r}\t{i % 5}\n' for i in range(3 * len(sub) + 50))
                open(of, 'wb').write(stale.encode('ascii'))
                out, err, rc, to = cli.run_cli('password_scorer.py', ['-r', name, '-i', tf, '-o', of], stdin_mode='devnull', timeout=120, max_out=16 << 20)
                run.ev('scorer_cli_runs'); run.ev('scorer_runs_into_an_existing_results_file')
                if not to and rc == 0 and os.path.exists(of):
                    body = open(of, 'rb').read()
                    for line in body.decode(case['encoding'], 'replace').split('\n'):
                        f = line.split('\t')
                        if len(f) != 4:
                            continue
                        try:
                            p_ = float(f[2])
                        except ValueError:
                            continue
                        if p_ > 0 and f[0] not in set(sub):
                            run.violation(f'password_scorer.py -o FILE (the file existed, with an older, longer result): the file holds a record for {f[0]!r} with probability {p_!r}, '
                                          'which is not a candidate of this run', case, observed=line[:120]); return
                if os.path.exists(of):
                    os.remove(of)
            finally:
                os.remove(tf)
        run.ev('rulesets')
        nz = [(s, first[s][2]) for s in first if first[s][2]]
        run.sample({'list': case['items'][:5], 'encoding': case['encoding'], 'candidates': len(cands), 'nonzero': len(nz), 'examples': nz[:4],
                    'categories': dict(Counter(first[s][1] for s in first))})
    finally:
        repo.drop_rules(name)

def check_tiny(run, case):
    """Very improbable but derivable strings (eight segments of forty values each: p about 1e-13): what password_scorer.py reports for a string - on standard
    output and in an -o FILE - is the score of that string (relative 1e-9), however small."""
    import random
    from .. import cli, trainer
    rng = random.Random(case['hseed'])
    words = ['love', 'blue', 'star', 'king', 'moon', 'fire', 'wall', 'rain', 'gold', 'fish', 'home', 'work', 'snow', 'ball', 'hand', 'book', 'tree', 'road', 'ship', 'lamp']
    pws = []
    for i in range(40):
        pws.append(''.join(rng.choice(words) + '%02d' % rng.randint(0, 99) + rng.choice('!#%&*+=?') for _ in range(3))[:-1])
    name, path = repo.new_rules_dir('c13t')
    sdir = repo.scratch()
    tf = os.path.join(sdir, f'c13tiny_{os.getpid()}.txt'); of = tf + '.out'
    try:
        res = trainer.train(('\n'.join(pws) + '\n').encode('ascii'), path, encoding='ascii', coverage=0.6, ngram=3, alphabet_size=100, max_len=21)
        if not res.ok:
            run.inconc('training did not complete'); return
        sc = load_scorer(path)
        mine = {p_: sc.parse(p_)[2] for p_ in dict.fromkeys(pws)}
        tiny = [p_ for p_, v in mine.items() if 0 < v < 1e-10]
        if len(tiny) < 5:
            run.inconc('no tiny probabilities in this training'); return
        open(tf, 'wb').write(('\n'.join(mine) + '\n').encode('ascii'))
        for how in ('stdout', 'file'):
            args = ['-r', name, '-i', tf] + (['-o', of] if how == 'file' else [])
            out, err, rc, to = cli.run_cli('password_scorer.py', args, stdin_mode='devnull', timeout=120, max_out=16 << 20)
            run.ev('scorer_cli_runs'); run.ev('scorer_runs_on_tiny_probabilities')
            if to:
                continue
            body = open(of, 'rb').read() if how == 'file' and os.path.exists(of) else out
            seen = 0
            for line in body.decode('ascii', 'replace').split('\n'):
                f = line.split('\t')
                if len(f) != 4 or f[0] not in mine:
                    continue
                try:
                    p_ = float(f[2])
                except ValueError:
                    continue
                seen += 1
                if not (abs(mine[f[0]] - p_) <= 1e-9 * max(p_, mine[f[0]])):
                    run.violation(f'password_scorer.py ({how}) reports {f[0]!r} with probability {f[2]} ; scoring exactly that string gives {mine[f[0]]!r}', case, observed=line[:160]); return
            run.ev('tiny_probability_records_compared', seen)
        run.case(h(['tiny', case['hseed']]))
    finally:
        for f_ in (tf, of):
            if os.path.exists(f_):
                os.remove(f_)
        repo.drop_rules(name)

def check_nested(run, case):
    """A ruleset stored below a sub-folder of Rules/ (-r team/<name>), with a different ruleset of the same last name directly under Rules/: the command-line scorer
    scores against the ruleset that was named (seeded C13s: a 'path traversal' hardening that keeps only the last component of the name)."""
    import shutil
    from .. import cli, trainer
    A = ['zebra2020', 'walrus77', 'otter!9', 'zebra77', 'walrus2020']
    B = ['summer15', 'winter#3', 'autumn15', 'spring#8', 'summer#3']
    sdir = repo.scratch()
    name, pathA = repo.new_rules_dir('c13n')
    team = f'team_{os.getpid()}'
    pathB = os.path.join(sdir, 'Rules', team, name)
    os.makedirs(pathB)
    tf = os.path.join(sdir, f'c13nested_{os.getpid()}.txt')
    try:
        for path, pws in ((pathA, A), (pathB, B)):
            res = trainer.train(('\n'.join(pws) + '\n').encode('ascii'), path, encoding='ascii', coverage=0.6, ngram=3, alphabet_size=100, max_len=21)
            if not res.ok:
                run.inconc('training did not complete'); return
        sc = load_scorer(pathB)
        mine = {w: sc.parse(w)[2] for w in A + B}
        open(tf, 'wb').write(('\n'.join(A + B) + '\n').encode('ascii'))
        out, err, rc, to = cli.run_cli('password_scorer.py', ['-r', team + '/' + name, '-i', tf], stdin_mode='devnull', timeout=120, max_out=16 << 20)
        run.ev('scorer_cli_runs'); run.ev('scorer_runs_on_a_nested_ruleset_name')
        if to:
            run.inconc('scorer did not end within the watchdog'); return
        seen = 0
        for line in out.decode('ascii', 'replace').split('\n'):
            f = line.split('\t')
            if len(f) != 4 or f[0] not in mine:
                continue
            try:
                p_ = float(f[2])
            except ValueError:
                continue
            seen += 1
            if not (abs(mine[f[0]] - p_) <= 1e-9 * max(p_, mine[f[0]])):
                run.violation(f'password_scorer.py -r <folder>/<name> (another ruleset called <name> lies directly under Rules/) reports {f[0]!r} with probability {f[2]}; '
                              f'the ruleset that was named gives {mine[f[0]]!r}', case, observed=line[:160]); return
        if seen < len(mine):
            run.violation(f'password_scorer.py -r <folder>/<name>: {seen} of {len(mine)} inputs were scored', case, observed=err[-300:].decode('utf-8', 'replace')); return
        run.ev('nested_name_records_compared', seen)
        run.case(h(['nested', 1]))
    finally:
        if os.path.exists(tf):
            os.remove(tf)
        shutil.rmtree(os.path.join(sdir, 'Rules', team), ignore_errors=True)
        repo.drop_rules(name)

def run(run, rng):
    run.required_events = ['scored', 'nonzero_scores', 'emails_classified', 'websites_classified', 'history_independence_checked', 'limit_variants_checked']
    run.min_distinct = 20
    run.assumptions = ['guesser language = default flags, non-Markov pre-terminals (the PCFG probability of the scorer does not cover OMEN guesses)',
                       'probabilities compared with relative tolerance 1e-9', 'candidates containing letters outside the one-to-one case domain are the recorded finding F-C13']
    if run.shard[0] == 1 % run.shard[1]:
        run.guard({'tiny': True, 'hseed': rng.getrandbits(32)}, check_tiny, seconds=300)
    if run.shard[0] == 2 % run.shard[1]:
        run.guard({'nested': True}, check_nested, seconds=300)
    for i in range(N[run.tier]):
        case = trained.gen_train_case(rng, max_len_choices=(21,), coverages=(0.6, 0.3, 1.0))
        if case['encoding'] == 'utf-8' and i % 4 == 3:
            # input class of the recorded finding F-C13: letters whose case mapping is not one-to-one, present in the training list
            case['items'] += [['ǅungla', 2], ['straẞe', 1], ['ǅ', 1]]
        run.guard(case, check_case, seconds=300)

def replay(run, case):
    if case['case'].get('nested'):
        return check_nested(run, case['case'])
    if case['case'].get('tiny'):
        check_tiny(run, case['case'])
    else:
        check_case(run, case['case'])
