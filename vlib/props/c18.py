"""C18 — the saved OMEN keyspace is the number of guesses a level really produces."""
import os
from collections import Counter
from .. import repo, oracles, trained
from ..evidence import h
from . import c11

LEVEL = 'exploration'
RULE = ('training lists as in C11 (small alphabets, ngram 2-4, max_len 5-8; dominated by length == ngram, by a single length, or mixed); for every level listed in '
        'omen_keyspace.txt: keyspace == number of distinct strings the real MarkovCracker emits at that level == brute-force count from the files, and '
        'pcfg_omen_prob == (training passwords at that level / N) / keyspace. non-trivial = listed level with keyspace >= 2; distinct by hash(list, options, level)')
SHARDS = {'quick': 4, 'thorough': 16}
N = {'quick': 30, 'thorough': 800}

def check_case(run, case):
    if case.get('first'):
        # history: the rule directory already holds a ruleset trained with OTHER options (n-gram size, alphabet, list); the ruleset is then trained again
        # in place with this case's list and options - everything judged below must describe the second training only
        from .. import trainer, trainlists
        name, path, res0 = trained.train_case(case['first'], 'c18')
        if not res0.ok:
            repo.drop_rules(name)
            run.ev('trainings_not_completed'); run.inconc('training did not complete'); return
        render = trainlists.render_prefix if case.get('prefixcount') else trainlists.render_plain
        res = trainer.train(render([(p, k) for p, k in case['items']], case['encoding']), path, encoding=case['encoding'], coverage=case['coverage'], ngram=case['ngram'],
                            alphabet_size=case['alphabet'], max_len=case['max_len'], prefixcount=bool(case.get('prefixcount')))
        run.ev('retrained_in_place_with_other_options')
    else:
        name, path, res = trained.train_case(case, 'c18')
    try:
        if not res.ok or res.omen_trainer is None:
            run.ev('trainings_not_completed'); run.inconc('training did not complete'); return
        enc = case['encoding']
        model = oracles.OmenModel(os.path.join(path, 'Omen'))
        ks = {int(v): int(p) for v, p in oracles.read_rows(os.path.join(path, 'Omen', 'omen_keyspace.txt'), enc)}
        probs = {int(v): float(p) for v, p in oracles.read_rows(os.path.join(path, 'Omen', 'pcfg_omen_prob.txt'), enc)}
        per = {int(v): int(p) for v, p in oracles.read_rows(os.path.join(path, 'Omen', 'omen_pws_per_level.txt'), enc)}
        Npw = res.passes[0]['num_passwords']
        # how many training passwords sit at each level, by the reference model read from the files (not the trainer's own per-level file)
        per_ref = Counter(model.level(pw) for pw in res.passes[0]['yielded'])
        if not ks:
            run.inconc('no keyspace listed'); return
        top = max(ks)
        # the saved probability of every listed level against the number of training passwords the files put on that level - before any enumeration, so that
        # models too large to enumerate are judged on this part
        for L, k in sorted(ks.items()):
            if k <= 0:
                continue
            exp = (per_ref.get(L, 0) / Npw) / k
            if L in probs and abs(probs[L] - exp) > 1e-12 * max(exp, 1e-300):
                run.violation(f'level {L}: pcfg_omen_prob is {probs.get(L)!r}, expected (training passwords at that level / N) / keyspace = ({per_ref.get(L, 0)}/{Npw})/{k}; '
                              f'the per-level file of the trainer says {per.get(L)}', case, observed={'levels_listed': sorted(ks)[:20]}); return
            run.ev('level_probabilities_compared')
        if per_ref.get(top):
            run.ev('lists_with_a_password_on_the_top_listed_level')
        try:
            ref = model.all_levels(top, cap=200000)
            where, per_level = c11.guesser_levels(path, top, cap=200000)
        except OverflowError:
            run.inconc('model above enumeration cap'); return
        for L, k in sorted(ks.items()):
            got = per_level.get(L, [])
            run.ev('levels_compared'); run.evals += 1
            if len(set(got)) != len(got):
                run.violation(f'level {L}: generator repeats strings', case); return
            if k != len(set(got)) or k != len(set(ref.get(L, []))):
                run.violation(f'level {L}: omen_keyspace.txt says {k}, the generator emits {len(set(got))} distinct strings, brute force from the files {len(set(ref.get(L, [])))}', case,
                              observed={'keyspace_file': k, 'generator': len(set(got)), 'reference': len(set(ref.get(L, []))), 'ngram': case['ngram'], 'ln': model.ln}); return
            if k == 0:
                if L in probs:
                    run.violation(f'level {L} has keyspace 0 but a probability', case); return
                continue
            exp = (per_ref.get(L, 0) / Npw) / k
            if L not in probs or abs(probs[L] - exp) > 1e-12 * max(exp, 1e-300):
                run.violation(f'level {L}: pcfg_omen_prob is {probs.get(L)!r}, expected (training passwords at that level / N) / keyspace = ({per_ref.get(L, 0)}/{Npw})/{k}; the per-level file of the trainer says {per.get(L, 0)}', case); return
            if k >= 2:
                run.nontrivial(h([case['items'], case['ngram'], case['max_len'], L]))
        extra = set(probs) - set(ks)
        if extra:
            run.violation(f'pcfg_omen_prob.txt lists levels {sorted(extra)} that omen_keyspace.txt does not', case); return
        run.ev('lists')
        run.add_to_set('list_shapes', f"ngram={case['ngram']},lens={sorted({len(p) for p, k in case['items']})}"[:60])
        run.sample({'items': case['items'][:6], 'ngram': case['ngram'], 'max_len': case['max_len'], 'keyspace': dict(sorted(ks.items())[:8]),
                    'prob': {k: probs[k] for k in sorted(probs)[:4]}})
    finally:
        repo.drop_rules(name)

def many_prefix_case(rng):
    """A list in which no initial n-gram is frequent: several hundred passwords with pairwise different prefixes, so the lowest initial-n-gram level is 1 or
    more (a level-0 prefix needs a share of about 1/680 of the list).  The remaining level then goes negative in places where it never does on small lists."""
    import string
    syms = rng.sample(string.ascii_lowercase + string.digits, rng.choice([28, 30, 32]))
    tail = rng.choice(syms)
    pairs = [a + b for a in syms for b in syms]
    n = min(rng.choice([700, 800, 900]), len(pairs))    # 28 symbols give 784 pairs
    pref = rng.sample(pairs, n)
    items = [[p_ + tail * rng.choice([2, 2, 3]), 1] for p_ in pref]
    return {'items': items, 'encoding': 'utf-8', 'ngram': 3, 'max_len': 6, 'alphabet': 100, 'coverage': 0.6, 'symbols': ''.join(syms), 'hseed': rng.getrandbits(32),
            'prefixcount': False, 'many_prefixes': True}

def check_interrupted(run, case):
    """CTRL-C during a training (the keyspace of the higher levels takes a good part of the run).  The trainer of today dies and saves nothing.  A ruleset that
    is left behind all the same is judged like any other: the keyspace of a level is a function of the level files, so where IP / CP / EP / LN.level are the
    files of the uninterrupted training of the same list, omen_keyspace.txt has to be its file too - and the saved probability (per-level count / N) / keyspace."""
    from .. import interrupt
    ref, outs, cleanup = interrupt.interrupted_trainings(case['seed'], case['n_lines'], ['-c', '0.6', '-n', str(case['ngram'])], case['points'], tag='c18int')
    try:
        def omen(path):
            od = os.path.join(path, 'Omen')
            rd = lambda f: open(os.path.join(od, f), 'rb').read() if os.path.exists(os.path.join(od, f)) else None
            return {f: rd(f) for f in ('IP.level', 'CP.level', 'EP.level', 'LN.level', 'omen_keyspace.txt', 'pcfg_omen_prob.txt', 'omen_pws_per_level.txt')}
        if not os.path.exists(os.path.join(ref['path'], 'Grammar', 'grammar.txt')):
            run.inconc('reference training did not complete'); return
        R = omen(ref['path'])
        for o in outs:
            run.ev('trainings_interrupted_by_sigint')
            if not o['saved']:
                run.ev('interrupted_trainings_that_saved_nothing'); continue
            if o['rc'] != 0:
                # killed while it was writing the ruleset: the trainer did not claim that this training completed, the partial tree is not judged
                run.ev('interrupted_trainings_killed_while_saving'); continue
            run.ev('interrupted_trainings_that_left_a_ruleset')
            O = omen(o['path'])
            if all(O[f] == R[f] for f in ('IP.level', 'CP.level', 'EP.level', 'LN.level')):
                if O['omen_keyspace.txt'] != R['omen_keyspace.txt']:
                    a = dict(l.split(b'\t') for l in (O['omen_keyspace.txt'] or b'').split(b'\n') if l)
                    b = dict(l.split(b'\t') for l in R['omen_keyspace.txt'].split(b'\n') if l)
                    # a level that is simply not listed claims nothing; a level that is listed claims the number of strings it produces
                    diff = sorted((int(k), a[k], b[k]) for k in set(a) & set(b) if a[k] != b[k])[:4]
                    if not diff:
                        run.ev('left_behind_rulesets_listing_fewer_levels'); continue
                    run.violation(f'trainer.py interrupted by SIGINT {o["at"]:.2f}s into a {ref["seconds"]:.2f}s training left a ruleset with the level files of the full training but '
                                  f'another omen_keyspace.txt: (level, saved, full training) {diff}', case, observed={'stdout_tail': o['stdout_tail'][-200:]}); return
                if O['omen_pws_per_level.txt'] == R['omen_pws_per_level.txt'] and O['pcfg_omen_prob.txt'] != R['pcfg_omen_prob.txt']:
                    run.violation(f'trainer.py interrupted by SIGINT {o["at"]:.2f}s left a ruleset with the level files and per-level counts of the full training but other level probabilities', case); return
                run.ev('left_behind_rulesets_with_the_keyspace_of_the_full_training')
        run.nontrivial(h(['interrupted', case['seed'], case['n_lines'], case['ngram']]))
    finally:
        cleanup()

def flat_length_case(rng):
    """Eight lengths, each an eighth of the list: no length is frequent enough for length level 0 or 1, so level 1 is not listed (the listed levels are 2..18, seventeen
    of them), and some 240 rare variants (one to five letters changed, multiplicities 1-15) spread over the higher levels, the top one among them."""
    words = ['abcde', 'bcdefa', 'cdefabc', 'defabcde', 'efabcdefa', 'fabcdefabc', 'abcdefabcde', 'bcdefabcdefa']
    items = [[w, 1000] for w in words]
    rare = set()
    letters = 'abcdefxyz'
    while len(rare) < 240:
        w = list(rng.choice(words))
        for _ in range(rng.randint(1, 5)):
            w[rng.randrange(len(w))] = rng.choice(letters)
        rare.add(''.join(w))
    items += [[w, rng.choice([1, 1, 1, 2, 3, 6, 15])] for w in sorted(rare) if w not in words]
    rng.shuffle(items)
    return {'items': items, 'encoding': 'ascii', 'ngram': rng.choice([3, 4]), 'max_len': 21, 'alphabet': 100, 'coverage': 0.6, 'hseed': rng.getrandbits(32), 'prefixcount': True, 'flat_lengths': True}

def check_flat(run, case):
    """The flat-length list, completed - if it does not hold one yet - by a password that the trained model puts on the top listed level (found by scoring
    mutations of the list's words with the reference reading of the files; one more password among 8000 leaves the model where it was)."""
    import random
    rng = random.Random(case['hseed'])
    name, path, res = trained.train_case(case, 'c18f')
    try:
        if not res.ok:
            run.inconc('training did not complete'); return
        enc = case['encoding']
        ks = {int(v): int(p_) for v, p_ in oracles.read_rows(os.path.join(path, 'Omen', 'omen_keyspace.txt'), enc)}
        model = oracles.OmenModel(os.path.join(path, 'Omen'))
        top = max(ks)
        have = {model.level(pw) for pw in res.passes[0]['yielded']}
        extra = []
        if top not in have:
            words = [p_ for p_, k in case['items'] if k >= 1000]
            for _ in range(20000):
                w = list(rng.choice(words))
                for _k in range(rng.randint(1, 5)):
                    w[rng.randrange(len(w))] = rng.choice('abcdefxyz')
                w = ''.join(w)
                if model.level(w) == top:
                    extra.append(w)
                    if len(extra) >= 2:
                        break
    finally:
        repo.drop_rules(name)
    case2 = dict(case, items=case['items'] + [[w, 1] for w in extra])
    check_case(run, case2)

def run(run, rng):
    run.required_events = ['levels_compared', 'retrained_in_place_with_other_options']
    run.min_distinct = 10
    run.assumptions = ['max_len 5-8 handed to run_trainer (harness bound) so that levels can be enumerated; the trainer\'s own 10^10 cut-off is out of reach of enumeration',
                       'levels whose model exceeds 200000 strings are not decided (inconclusive)']
    if run.shard[0] == 0 or run.tier == 'thorough':
        run.ev('many_prefix_lists')
        run.guard(many_prefix_case(rng), check_case, seconds=600)
    if run.shard[0] == 2 % run.shard[1]:
        run.ev('flat_length_lists')
        run.guard(flat_length_case(rng), check_flat, seconds=600)
    if run.shard[0] == 1 % run.shard[1]:
        run.guard({'interrupted': True, 'seed': rng.getrandbits(32), 'n_lines': 6000, 'ngram': rng.choice([3, 4]), 'points': 24 if run.tier == 'quick' else 72}, check_interrupted, seconds=600)
    for i in range(N[run.tier]):
        case = c11.gen_case(rng)
        case['save_sensitive'] = rng.random() < 0.3
        if i % 5 == 4:
            first = c11.gen_case(rng)
            for _ in range(30):
                if first['encoding'] == case['encoding']:
                    break
                first = c11.gen_case(rng)
            if first['encoding'] != case['encoding']:
                run.guard(case, check_case, seconds=240)
                continue
            first['ngram'] = rng.choice([n for n in (2, 3, 4) if n != case['ngram']])
            first['max_len'] = max(first['max_len'], first['ngram'], 5)
            case['first'] = first
        run.guard(case, check_case, seconds=240)

def replay(run, case):
    if case['case'].get('flat_lengths'):
        check_flat(run, case['case'])
    elif case['case'].get('interrupted'):
        check_interrupted(run, case['case'])
    else:
        check_case(run, case['case'])
