"""C05 — training segments every password into a lossless, soundly typed tiling; counters = tallies."""
import os, sys, subprocess, traceback
from collections import Counter
from .. import repo, oracles, trained, trainlists, contracts
from ..evidence import h, timebox, CaseTimeout

LEVEL = 'exploration'
RULE = ('strings from a fragment grammar covering every detector trigger (20/19xx years, #1 + digits, No.1, walks + digits, www./http://, TLDs, @...TLD, words, '
        'blacklisted walk prefixes), abutted/overlapping, then mutated (insert/delete/duplicate a char, case flips, moved patterns), across Unicode classes '
        '(Cyrillic JCUKEN walks, Arabic-Indic/superscript digits, title-case and length-changing case mappings, combining marks, non-BMP), lengths 1-64 '
        '(thorough: up to 4000 incl. many-walk strings); each batch is parsed by the real PCFGPasswordParser whose MultiWordDetector was trained on a generated '
        'history; section lists handed to base_structure_creation are validated by the reference validator, icontract post-conditions run on every detect_* '
        'call, counters are compared with tallies. non-trivial = string with >=2 distinct labels; distinct by (label sequence, detector set, Unicode classes)')
SHARDS = {'quick': 4, 'thorough': 16}
N = {'quick': 15000, 'thorough': 300000}
BATCH = 400

TRIGGERS = ['DR.', 'NO.1', ';P', ':P', 'mR.', 'sT.', 'ST.', 'NO.', 'I<3x', 'dR.', '2019', '1999', '2000', '19', '20', '201', '#1', '#12', '#1a', 'No.1', 'no.1', 'No.', '<3', 'i<3', 'I<3', ';p', ':p', '*0*', 'Mr.', 'St.', 'dr.',
            'www.', 'http://', 'http://www.', '.com', '.org', '.co.uk', '.ru', '.nl', '.se', '.nl.se', '@', '@gmail.com', 'bob@aol.com', 'x.y@mail.ru',
            'google.com', 'site.net/path', '1qaz', 'qwer', '1qaz2wsx', 'zaq1', 'asdf', 'qwerty', '1234', '123;', 'drew', 'fred', 'were', 'tyui', 'ty78',
            'йцук', '1йцу', 'й123', 'фыва1', '!qaz', 'QWER1', '12qw', 'q1w2', 'poiu0', '0987', 'e3r4', 'wert5', '3edc', 'y6t5',
            # walks within ONE character class (symbols only / digits only / letters only): adjacent keys, but not a keyboard segment
            '!@#$', '!@#$%^&*', '<>?:', '-=[]', '()_+', ')(*&', '{}|:', ',./;', '$%^&', '4567', '09876', 'zxcv', 'lkjh']
WORDS = ['password', 'pass', 'word', 'love', 'super', 'man', 'base', 'ball', 'star', 'wars', 'blue', 'house', 'a', 'ab', 'abc', 'iloveyou', 'dragon',
         'пароль', 'привет', 'любовь', 'señor', 'über', 'été', 'κωδικος', 'test']
ODD = ['İ', 'ǅ', 'ß', 'ẞ', 'ŉ', 'ﬁ', '١٢٣', '²', '٣', '९', 'Ⅷ', 'á', 'ë', '́', '😀', '𝒜', '𝟙', ' ', ' ', '​', 'ǆ', 'ς', 'Σ', 'ı',
       'ͅ', 'Å', 'ⓐ', 'ª', 'ʰ', '中文', 'かな', '٪']
SYMS = list('!@#$%^&*()_+-=[]{};:\'",.<>/?\\|`~ ')
DIG = ['1', '12', '123', '1234', '12345', '007', '0', '99', '2020', '1919', '20201', '12019', '119991']

def fragment(rng):
    r = rng.random()
    if r < 0.30:
        return rng.choice(TRIGGERS)
    if r < 0.55:
        return trainlists.cap(rng, rng.choice(WORDS))
    if r < 0.68:
        return rng.choice(DIG)
    if r < 0.80:
        return rng.choice(SYMS) * rng.choice([1, 1, 2, 3])
    if r < 0.90:
        return rng.choice(ODD)
    return rng.choice(trainlists.MULTI)

def mutate(rng, s):
    if not s:
        return s
    r = rng.random()
    i = rng.randrange(len(s))
    if r < 0.2:
        return s[:i] + rng.choice(SYMS + list('aZ19') + ODD) + s[i:]
    if r < 0.4:
        return s[:i] + s[i + 1:]
    if r < 0.55:
        return s[:i] + s[i] + s[i:]
    if r < 0.7:
        return s[:i] + s[i].swapcase() + s[i + 1:]
    if r < 0.85:
        j = rng.randrange(len(s))
        a, b = min(i, j), max(i, j)
        return s[a:b] + s[:a] + s[b:]
    return s.upper() if rng.random() < 0.5 else s.lower()

def valid_password(s):
    if len(s) == 0 or '\t' in s:
        return False
    return not any(ord(c) < 0x20 or c in ' \u0085 ' for c in s)

def gen_string(rng, maxlen=64, lenchg=False):
    if lenchg and rng.random() < 0.5:
        # U+0130 (its lower() has two characters) in front of / inside every kind of trigger
        core = rng.choice(['bob@gmail.com', 'x@y.org', 'www.site.net', 'http://a.com/x', 'google.com', 'password', 'superman', '2019', '#1', '1qaz', 'a.b@mail.ru'])
        i = rng.randrange(len(core) + 1)
        s = rng.choice(['İ', 'aİ', 'İİ', 'İ1', '']) + core[:i] + rng.choice(['İ', '', 'İ']) + core[i:] + rng.choice(['', 'x', 'İ', '12', '!'])
        return s if valid_password(s) else 'İ'
    s = ''.join(fragment(rng) for _ in range(rng.choice([1, 1, 2, 2, 3, 3, 4, 5, 6])))
    for _ in range(rng.choice([0, 0, 0, 1, 1, 2, 3])):
        s = mutate(rng, s)
    s = s[:maxlen]
    return s if valid_password(s) else 'x'

def gen_history(rng):
    """Prior training list for the multi-word detector: words at, just below and above the threshold (5); passwords of arbitrary structure
    (short and long alpha runs separated by digits/symbols) repeated often enough that anything the detector tallies wrongly reaches the threshold."""
    hist = []
    for w in rng.sample(WORDS + ['super', 'man1', 'blue', 'house', 'star', 'wars', 'base', 'ball', 'love', 'test', 'pass', 'word'], 12):
        hist += [trainlists.cap(rng, w) + rng.choice(['', '1', '!', '12'])] * rng.choice([0, 1, 4, 5, 5, 6, 9])
    hist += [rng.choice(trainlists.MULTI)] * rng.choice([0, 1, 5])
    shorts = ['my', 'a', 'ab', 'abc', 'i', 'xy', 'the', 'qq', 'я', 'да']
    for _ in range(rng.randint(2, 6)):
        parts = [rng.choice(shorts + WORDS) for _ in range(rng.randint(2, 4))]
        seps = [rng.choice(['1', '-', '!', '12', '_', '.', ' ']) for _ in parts]
        pw = ''.join(p + s for p, s in zip(parts, seps))[:-1]
        hist += [pw[:21]] * rng.choice([1, 5, 6, 7])
    for _ in range(rng.randint(0, 5)):
        hist += [gen_string(rng, maxlen=21)] * rng.choice([1, 5, 8])
    rng.shuffle(hist)
    return hist

FREQ = ['correct', 'horse', 'battery', 'staple', 'blue', 'moon', 'river', 'stone', 'fire', 'wall', 'night', 'king', 'love', 'star', 'wars']

def multiword_family(rng, history, k):
    """Make 4-5 words frequent in the history and return concatenations of 2-3 of them, several sharing a tail, in a random order:
    splitting one must not depend on which of the others was parsed before."""
    ws = rng.sample(FREQ, 5)
    for w in ws:
        history += [w + rng.choice(['', '1', '!'])] * rng.choice([5, 6, 8])
    out = []
    for _ in range(k):
        n = rng.choice([2, 3, 3, 4])
        parts = [rng.choice(ws) for _ in range(n - 2)] + [ws[1], ws[2]] if rng.random() < 0.6 else [rng.choice(ws) for _ in range(n)]
        s = ''.join(parts)
        if len(s) <= 20:
            out.append(trainlists.cap(rng, s) + rng.choice(['', '', '1', '!']))
    return out

def glued_candidates(rng, history, k):
    """Strings made of adjacent alpha runs of history passwords glued together (+ a frequent word): what a mis-tallying detector would split."""
    out = []
    runs_of = []
    for pw in set(history):
        runs, cur = [], ''
        for ch in pw.lower() + '\0':
            if ch.isalpha():
                cur += ch
            else:
                if cur:
                    runs.append(cur)
                cur = ''
        if len(runs) >= 2:
            runs_of.append(runs)
    for _ in range(k):
        if not runs_of:
            break
        runs = rng.choice(runs_of)
        i = rng.randrange(len(runs) - 1)
        glued = runs[i] + runs[i + 1]
        s = rng.choice([glued + rng.choice(WORDS), rng.choice(WORDS) + glued, glued, glued + '1', glued + rng.choice(WORDS) + '!'])
        out.append(trainlists.cap(rng, s)[:30])
    return [s for s in out if valid_password(s)]

def classify(pw, kinds, exc=None):
    """Mechanism keys of the recorded findings, decided from the INPUT (and, for F-C05b, the exception type + frames)."""
    return None

def uclasses(pw):
    out = set()
    for c in pw:
        o = ord(c)
        out.add('ascii' if o < 128 else 'cyr' if 0x400 <= o < 0x500 else 'astral' if o > 0xffff else 'lat1' if o < 0x100 else 'other')
    return tuple(sorted(out))

def check_batch(run, case):
    """case: {'history': [...], 'strings': [...]}"""
    repo.scratch()
    contracts.install()
    from lib_trainer.detection_rules.multiword_detector import MultiWordDetector
    import lib_trainer.pcfg_password_parser as ppp
    mwd = MultiWordDetector(threshold=5, min_len=4, max_len=21)
    for pw in case['history']:
        mwd.train(pw)
    tally = oracles.mw_tally(case['history'])
    parser = ppp.PCFGPasswordParser(mwd)
    seen = []
    orig = ppp.base_structure_creation
    def bsc(section_list):
        seen.append([tuple(x) for x in section_list])
        return orig(section_list)
    ppp.base_structure_creation = bsc
    segmented = []
    try:
        for pw in case['strings']:
            seen.clear()
            run.ev('parse_calls')
            try:
                parser.parse(pw)
            except RecursionError as e:
                tb = traceback.format_exc()
                run.violation(f'parse() raised RecursionError on a password of length {len(pw)}', {'history': [], 'strings': [pw]}, observed=tb[-600:],
                              mech=classify(pw, ['raise'], (e, tb)))
                return          # the parser state is undefined after an abort: stop this batch
            except contracts.ContractBroken as e:
                run.violation(f'contract broken while parsing {pw!r}: {e!s:.300}', {'history': case['history'], 'strings': [pw]}, mech=classify(pw, ['contract']))
                return
            except Exception as e:
                tb = traceback.format_exc()
                run.violation(f'parse() raised {type(e).__name__} on {pw!r}: {e!s:.200}', {'history': case['history'], 'strings': [pw]}, observed=tb[-800:],
                              mech=classify(pw, ['raise'], (e, tb)))
                return
            if len(seen) != 1:
                run.violation(f'base_structure_creation called {len(seen)} times for one password', {'history': case['history'], 'strings': [pw]}); return
            secs = list(seen[0])
            run.ev('SEGMENTED')
            bad = oracles.validate_segmentation(pw, secs, tally)
            if bad:
                kinds = [k for k, _ in bad]
                run.violation(f'segmentation of {pw!r} is unsound: {bad[0][0]}: {bad[0][1]}', {'history': case['history'], 'strings': [pw]},
                              observed=secs, expected=[m for _, m in bad[:4]], mech=classify(pw, kinds))
                if classify(pw, kinds) is None:
                    return
                continue            # known-finding input: its (broken) segments would poison the tallies below
            segmented.append((pw, secs))
            labs = tuple(l for _, l in secs)
            fam = tuple(sorted({l[0] for l in labs}))
            run.case((repr(tuple(l[0] for l in labs)) + repr(uclasses(pw))) if len(set(labs)) >= 2 else None)
            run.add_to_set('label_families', repr(fam))
            if any(a[0] == 'A' and b[0] == 'A' for a, b in zip(labs, labs[1:])):
                run.ev('multiword_splits_validated')
            if len(run.samples) < run.MAX_SAMPLES and len(set(labs)) >= 3 and len(pw) < 30:
                run.sample({'password': pw, 'segments': secs})
        # counters vs tallies (only meaningful when no known-finding input polluted the parser state)
        if len(segmented) == len(case['strings']):
            t = trained.tally(segmented)
            pairs = [('count_alpha', t['Alpha']), ('count_alpha_masks', t['Capitalization']), ('count_digits', t['Digits']), ('count_other', t['Other']),
                     ('count_keyboard', t['Keyboard'])]
            def nosigma(d):
                # str.lower() is context sensitive for GREEK CAPITAL SIGMA (final vs medial form) and the tool lowers the whole section, the tally the
                # segment: both spellings are the same lower-case word
                return {k: Counter({w.replace('ς', 'σ'): 0 for w in v}) + sum((Counter({w.replace('ς', 'σ'): n}) for w, n in v.items()), Counter()) for k, v in d.items()}
            for attr, mine in pairs:
                theirs = {k: Counter(v) for k, v in getattr(parser, attr).items() if v}
                if attr == 'count_alpha':
                    theirs, mine = nosigma(theirs), nosigma(mine)
                if theirs != {k: v for k, v in mine.items()}:
                    diff = {k: (dict(theirs.get(k, {})), dict(mine.get(k, {}))) for k in set(theirs) | set(mine) if theirs.get(k) != mine.get(k)}
                    run.violation(f'{attr} differs from the tally of the labelled segments', case, observed=str(diff)[:600]); return
            for attr, mine in (('count_years', t['Years']), ('count_context_sensitive', t['Context']), ('count_base_structures', t['base']),
                               ('count_raw_base_structures', t['raw']), ('count_prince', t['prince'])):
                theirs = Counter({k: v for k, v in getattr(parser, attr).items() if v})
                if theirs != mine:
                    run.violation(f'{attr} differs from the tally of the labelled segments', case,
                                  observed={'tool': dict((theirs - mine)), 'tally': dict((mine - theirs))}); return
            run.ev('counter_comparisons')
    finally:
        ppp.base_structure_creation = orig

def pathological(rng):
    """Thorough tier only: very long strings, incl. many separate keyboard walks (recorded finding F-C05b at ~1000 walks)."""
    out = []
    for n in (50, 200, 600):
        out.append(''.join(rng.choice(['1qaz', '2wsx', 'zaq1', 'qwer1']) + rng.choice(['', 'x', '9']) for _ in range(n)))
    out.append('1qaz2wsx3edc4rfv' * 250)
    out.append(''.join(gen_string(rng) for _ in range(120))[:4000])
    out.append('a' * 4000); out.append('1' * 3000 + '!' * 1000); out.append('ab1!' * 1000)
    return [s for s in out if valid_password(s)]

PRE_WORDS = ['love', 'cats', 'blue', 'moon', 'star', 'wars', 'fire', 'wall', 'rain', 'drop', 'gold', 'fish', 'home', 'work', 'snow', 'ball', 'king', 'kong', 'hand', 'book']

def gen_pretrained(rng):
    """A training list together with a --multiword word list.  Some words of the word list also occur a few times in the training list; some compounds are in the
    word list (they are base words: they stay whole although both halves are frequent), others are not (they may be split)."""
    pairs = [tuple(rng.sample(PRE_WORDS, 2)) for _ in range(rng.randint(2, 4))]
    words, items = [], []
    for a, b in pairs:
        kind = rng.choice(['whole_pretrained', 'whole_pretrained', 'parts_pretrained', 'nothing', 'long_whole'])
        if kind == 'long_whole':
            # a compound of 17-20 letters that is itself frequent (a pass phrase many people use), made of frequent words: frequent wholes stay whole
            parts = rng.sample([w for w in PRE_WORDS if len(w) == 4] + ['correct', 'horse', 'battery', 'staple', 'dragon', 'monkey'], 3)
            whole = ''.join(parts)
            if 17 <= len(whole) <= 20:
                items += [[w + rng.choice(['1', '!', '22']), rng.randint(5, 7)] for w in parts]
                items.append([rng.choice([whole, whole + '1', whole.capitalize()])[:21], rng.randint(5, 8)])
            continue
        if kind == 'whole_pretrained':
            words.append(rng.choice([a + b, (a + b).capitalize(), a + b + ' 7']))
            items += [[a + rng.choice(['1', '!', '99']), rng.randint(5, 7)], [b + rng.choice(['2', '#', '07']), rng.randint(5, 7)]]
            items.append([rng.choice([a + b + '1', (a + b).capitalize() + '!', '12' + a + b]), rng.randint(1, 3)])
        elif kind == 'parts_pretrained':
            words += [a, b]
            items += [[a + '12', rng.randint(0, 3)], [b + '!', rng.randint(0, 3)], [a + b + rng.choice(['1', '', '#']), rng.randint(1, 2)]]
        else:
            items += [[a + '5', rng.randint(4, 6)], [b + '6', rng.randint(4, 6)], [a + b, rng.randint(1, 5)]]
    words += rng.sample(PRE_WORDS, 2) + rng.sample(['x', 'abc', '12 twelve', 'spam spam', ''], 2)
    items = [[p, k] for p, k in items if k > 0]
    rng.shuffle(items); rng.shuffle(words)
    return {'pretrained': words, 'items': items, 'coverage': rng.choice([0.6, 1.0]), 'ngram': rng.choice([2, 3])}

def check_pretrained(run, case):
    """End to end through the real run_trainer with a --multiword list: the segmentation the trainer learned from must be sound with respect to the history the
    detector was given - the word list first (a new word there counts as a base word), then every password of the list."""
    from .. import trainer
    name, path = repo.new_rules_dir('c05mw')
    try:
        data = trainlists.render_plain([(p, k) for p, k in case['items']], 'utf-8')
        mw = ''.join(w + '\n' for w in case['pretrained']).encode('utf-8')
        res = trainer.train(data, path, multiword_data=mw, encoding='utf-8', coverage=case['coverage'], ngram=case['ngram'], alphabet_size=100, max_len=21)
        if not res.ok:
            run.ev('trainings_not_completed'); run.inconc('training did not complete'); return
        run.ev('trainings_with_a_multiword_list')
        words = [w for w in case['pretrained'] if oracles.valid_password(w)]
        history = [p for p, k in case['items'] for _ in range(k) if oracles.valid_password(p)]
        tally = oracles.mw_tally(history, pretrained=words)
        for pw, secs in res.segmented:
            run.ev('SEGMENTED')
            bad = oracles.validate_segmentation(pw, [tuple(x) for x in secs], tally)
            if bad:
                run.violation(f'run_trainer with a --multiword list: segmentation of {pw!r} is unsound: {bad[0][0]}: {bad[0][1]}', case, observed=secs,
                              expected={'word_list': case['pretrained'], 'tally_of_the_parts': {k: tally[k] for s_, _ in secs for k in [s_.lower()] if k in tally}})
                return
            labs = [l for _, l in secs]
            if any(a[0] == 'A' and b[0] == 'A' for a, b in zip(labs, labs[1:])):
                run.ev('multiword_splits_validated')
        run.case(h(['pretrained', case['pretrained'], case['items']]))
    finally:
        repo.drop_rules(name)

def run(run, rng):
    run.required_events = ['parse_calls', 'SEGMENTED', 'counter_comparisons', 'multiword_splits_validated']
    run.min_distinct = 40
    run.assumptions = ['"maximal digit run" = maximal within what earlier detectors (keyboard, e-mail, website, year, context) left unlabelled',
                       'E/W soundness is only checked lightly (contains @ / a dot); their provider/host lists are not re-derived',
                       'multi-word splits are checked for soundness (each part >= threshold, whole < threshold, 8 <= len < 21), not for completeness',
                       'strings pass the reference validity predicate of the input filter (no TAB / C0 controls / U+0085 / U+2028 / U+2029, non-empty)']
    n = N[run.tier]
    done = 0
    while done < n:
        lenchg = (done // BATCH) % 12 == 11            # every 12th batch is the U+0130 class
        hist = gen_history(rng)
        strings = [gen_string(rng, lenchg=lenchg) for _ in range(BATCH - 70)] + multiword_family(rng, hist, 30) + glued_candidates(rng, hist, 40)
        # segments that begin with a character without a Unicode name (DEL, C1 controls, private use, Tangut), each category and length more than once
        # alpha runs whose normal form C has another number of characters (conjoining Hangul jamo compose, Hebrew presentation forms decompose)
        strings += ['love\u1100\u1161\u11a8house1', '\u1112\u1161\u11ab\u1100\u1173\u11af12', 'ab\ufb2acd!', 'pass\ufb2a\ufb2bword', '\u1100\u1161blue\u1102\u1161']
        strings += ['\x7f!\x7f', 'ab\x7f\x7f1', '\x7f\x7fcd2', '\U00017000\U00017001\U00017002\U00017003x1', '\U00017004\U00017001\U00017002\U00017003y2', '\uf8ff1\uf8ff', 'q\x80\x801', '\x80\x80z']
        # format characters between and inside segments: bidirectional controls, marks, isolates, zero-width characters (a 'Trojan Source' strip would lose them: seeded C05s)
        strings += ['abc\u202edef1', '\u200e\u200f', 'pass\u2066word\u2069!', '12\u061c34', '\u202a\u202c', 'x\u200bq\u200d9', '!\u202d!', '\u2067love\u2069']
        rng.shuffle(strings)
        case = {'history': hist, 'strings': strings}
        run.guard(case, check_batch, seconds=300)
        done += BATCH
    for _ in range(12 if run.tier == 'quick' else 150):
        run.guard(gen_pretrained(rng), check_pretrained, seconds=120)
    if run.tier == 'quick' and run.shard[0] == 0:
        for s_ in ('1qaz2wsx3edc4rfv' * 300, ''.join(['1qaz9', 'zaq1x', 'qwer1!'][i % 3] for i in range(1500))):
            run.ev('pathological_length_cases')
            run.guard({'history': [], 'strings': [s_]}, check_batch, seconds=300)
    if run.tier == 'thorough' and run.shard[0] == 0:
        import sys as _s
        for s in pathological(rng):
            case = {'history': [], 'strings': [s]}
            run.ev('pathological_length_cases')
            run.guard(case, check_batch, seconds=600)
        run_repo_tests_with_contracts(run)
    for k, v in contracts.EVALS.items():
        run.ev('contract_eval:' + k, v)
    contracts.EVALS.clear()
    if run.events.get('contract_eval:detect_alpha', 0) == 0:
        run.required_events.append('contract_eval:detect_alpha')

def run_repo_tests_with_contracts(run):
    """The repository's own 75 tests with the contracts switched on: a contract that fires there is too strict or a defect the tests miss."""
    verif = os.path.dirname(os.path.dirname(os.path.dirname(os.path.abspath(__file__))))
    env = dict(os.environ, PYTHONPATH=os.pathsep.join([verif, os.path.join(verif, '.deps')]), VERIF_SCRATCH='')
    env.pop('VERIF_SCRATCH')
    env['VERIF_CONTRACTS_REPO'] = repo.REPO
    r = subprocess.run([sys.executable, '-B', '-m', 'pytest', '-q', '-p', 'no:cacheprovider', '-p', 'vlib.pytest_contracts'], cwd=repo.REPO, env=env,
                       capture_output=True, text=True, timeout=900)
    last = r.stdout.strip().split('\n')[-1] if r.stdout.strip() else r.stderr[-200:]
    ev = next((l for l in r.stdout.split('\n') if l.startswith('contract evaluations:')), 'contract evaluations: (line missing)')
    run.extra['repo_tests_with_contracts'] = last + ' | ' + ev
    if "'detect_alpha'" not in ev:
        run.inconc('contracts were not evaluated during the repository test run')
    run.ev('repo_test_runs_with_contracts')
    if r.returncode != 0:
        run.violation('the repository test suite fails with the detector contracts switched on: ' + last, {'history': [], 'strings': []}, observed=r.stdout[-1500:])

def replay(run, case):
    if 'pretrained' in case['case']:
        check_pretrained(run, case['case'])
    else:
        check_batch(run, case['case'])
