"""C16 — honeywords are drawn from the grammar with the grammar's probabilities; random_walk is reproducible."""
import os, random, math
from collections import Counter
from fractions import Fraction
from .. import repo, rulesets, oracles, monitors, gstream, session, cli, trained
from ..evidence import h

LEVEL = 'exploration'
RULE = ('generated rulesets (normalised like a trainer\'s, and un-normalised like an edited one; with and without a Markov structure; skip_brute on/off) and '
        'trained rulesets; random.random / random.choice inside lib_guesser.pcfg_grammar are replaced by a scripted source. The sampler is piecewise constant in '
        'each uniform draw, so the script sweeps EVERY region of the base draw and of every variable position of every base structure (midpoint, both edges at 1e-6 '
        'of the width, the breakpoints themselves +-1 ulp, 0.0 and 1-2^-53) and several choice indices; the selected derivation and the emitted word must be the '
        'ones an exact-rational reference sampler selects. CLI: honeywords -n N writes N words of the non-Markov language; two random_walk runs are byte-identical. '
        'non-trivial = probe inside a distribution with >= 2 regions; distinct by (ruleset hash, position, region, probe kind)')
SHARDS = {'quick': 4, 'thorough': 16}
N = {'quick': 25, 'thorough': 600}

class Script:
    """Stand-in for the random module inside pcfg_grammar."""
    def __init__(self):
        self.floats, self.choices = [], []
        self.nf = self.nc = 0
    def random(self):
        self.nf += 1
        return self.floats.pop(0) if self.floats else 0.5
    def choice(self, seq):
        self.nc += 1
        i = self.choices.pop(0) if self.choices else 0
        return seq[i % len(seq)]
    def seed(self, *a):
        pass
    def randint(self, a, b):
        return a
    def Random(self, *a):
        # a generator object created by the code under test (random.Random(seed)) is the same scripted source: the oracle does not depend on whether
        # the tool draws from the module-level generator or from one of its own
        return self
    def uniform(self, a, b):
        return a + (b - a) * self.random()
    def getstate(self):
        return None
    def setstate(self, st):
        pass

class scripted:
    """While active, every generator object of the standard random module in this process (the hidden module-level one, and any random.Random the code
    under test created for itself, whenever it created it) answers random() / choice() from the script.  Only wrapped around single calls into the tool."""
    def __init__(self, script):
        self.script = script
    def __enter__(self):
        import random as R
        self.R = R
        self.saved_mod = (R.random, R.choice)
        self.had = {n: R.Random.__dict__.get(n) for n in ('random', 'choice')}
        sc = self.script
        R.random, R.choice = sc.random, sc.choice
        R.Random.random = lambda self_: sc.random()
        R.Random.choice = lambda self_, seq: sc.choice(seq)
    def __exit__(self, *a):
        R = self.R
        R.random, R.choice = self.saved_mod
        for n, v in self.had.items():
            if v is None:
                delattr(R.Random, n)
            else:
                setattr(R.Random, n, v)

def regions(weights):
    """Exact partition of [0,1) by normalised cumulative weights: list of (lo, hi) Fractions; draw u selects i iff lo < u <= hi (u=0 selects the first with hi >= 0)."""
    ws = [Fraction(w) for w in weights]
    T = sum(ws)
    out, c = [], Fraction(0)
    for w in ws:
        out.append((c / T if T else Fraction(0), (c + w) / T if T else Fraction(0)))
        c += w
    return out

def ref_select(regs, u):
    u = Fraction(u)
    for i, (lo, hi) in enumerate(regs):
        if u <= hi:
            return i
    return len(regs) - 1

def probes(regs):
    """(u, expected index or set of acceptable indices, kind)"""
    out = []
    for i, (lo, hi) in enumerate(regs):
        w = hi - lo
        if w <= 0:
            continue
        d = w / 10 ** 6
        for u, kind in ((lo + w / 2, 'mid'), (lo + d, 'left-edge'), (hi - d, 'right-edge')):
            f = float(u)
            if 0.0 <= f < 1.0 and lo + d / 2 < Fraction(f) < hi - d / 2:
                out.append((f, {i}, kind))
        f = float(hi)
        for g, kind in ((f, 'breakpoint'), (math.nextafter(f, 0.0), 'breakpoint-1ulp'), (math.nextafter(f, 2.0), 'breakpoint+1ulp')):
            if 0.0 <= g < 1.0:
                out.append((g, {i, min(i + 1, len(regs) - 1)}, kind))
    out.append((0.0, {ref_select(regs, 0)}, 'zero'))
    last = 1.0 - 2.0 ** -53
    out.append((last, {len(regs) - 1, ref_select(regs, last)}, 'one-minus-eps'))
    return out

def gen_case(rng):
    kind = rng.choice(['normalised', 'normalised', 'edited', 'trained'])
    if kind == 'trained':
        tr = trained.gen_train_case(rng, max_len_choices=(21,), coverages=(0.6, 1.0, 0.9))
        if rng.random() < 0.5:
            tr['alphabet'] = rng.choice([4, 5, 6, 8, 10])        # small alphabets: few or no complete n-gram chains, OMEN levels with little or no keyspace
        return {'kind': kind, 'train': tr, 'flags': {'skip_brute': rng.random() < 0.3}, 'hseed': rng.getrandbits(32)}
    mg, xg = rng.choice([(1, 3), (2, 4), (2, 5)])
    spec = rulesets.gen_spec(rng, with_m=rng.random() < 0.4, n_base=rng.randint(1, 4), max_len=3, min_groups=mg, max_groups=xg, max_per_group=3,
                             pool=rng.choice(['counts', 'random', 'decimal', 'dyadic', 'equal']))
    if rng.random() < 0.4:
        rulesets.add_odd_alpha(rng, spec)
    if kind == 'normalised':
        tot = sum(p for _, p in spec['base'])
        spec['base'] = [[s, p / tot] for s, p in spec['base']]
        for lab, rows in spec['terms'].items():
            tot = sum(p for _, p in rows)
            spec['terms'][lab] = [[v, p / tot] for v, p in rows]
            spec['terms'][lab].sort(key=lambda r: -r[1])
    if kind == 'edited' and rng.random() < 0.5:
        # one table (or the base-structure list) written on another scale: every probability multiplied by the same tiny factor.  The walk normalises by the
        # list total, so the distribution is what it was
        f = rng.choice([1e-17, 1e-30, 1e-200, 3e-16])
        lab = rng.choice(list(spec['terms']) + ['base'])
        rows = spec['base'] if lab == 'base' else spec['terms'][lab]
        for r in rows:
            r[1] = r[1] * f
    return {'kind': kind, 'spec': spec, 'flags': {'skip_brute': rng.random() < 0.4}, 'hseed': rng.getrandbits(32)}

def check_case(run, case):
    rng = random.Random(case['hseed'])
    if case['kind'] == 'trained':
        name, path, res = trained.train_case(case['train'], 'c16')
        if not res.ok:
            repo.drop_rules(name); run.ev('trainings_not_completed'); run.inconc('training did not complete'); return
    else:
        name, path = gstream.materialise(case['spec'], 'c16')
    sn = session.new_session_name('c16')
    try:
        sb = bool(case['flags'].get('skip_brute'))
        disk = oracles.Disk(path)
        lang = oracles.Language(disk, skip_brute=sb)
        if not lang.base:
            run.inconc('no base structure'); return
        import lib_guesser.pcfg_grammar as pg
        script = Script()
        real_random = pg.random
        pg.random = script           # installed before the grammar is loaded, so a generator the grammar creates for itself is scripted too
        try:
            pcfg = monitors.load_pcfg(path, 'x', skip_brute=sb)
        except BaseException:
            pg.random = real_random
            raise
        try:
            base_regs = regions([b[2] for b in lang.base])
            def pos_regs(label):
                return regions([Fraction(p) * len(vals) for p, vals in lang.groups[label]])
            def walk(floats):
                script.floats = list(floats); script.choices = []
                with scripted(script):
                    return pcfg.random_walk()
            def mid(regs, i):
                lo, hi = regs[i]
                return float((lo + hi) / 2)
            # ---- base draw
            for u, ok, kind in probes(base_regs):
                item = walk([u] + [0.5] * 12)
                run.ev('probes'); run.evals += 1
                labs = [x[0] for x in item['pt']]
                cands = [lang.base[i][1] for i in ok]
                if labs not in cands:
                    run.violation(f'base draw u={u!r} ({kind}): selected structure {labs}, reference sampler selects {cands}', case, observed=labs, expected=cands); return
                if len(base_regs) >= 2 and kind in ('mid', 'left-edge', 'right-edge'):
                    run.nontrivial(h([case.get('spec', case.get('train')), 'base', sorted(ok), kind]))
            # ---- every position of every base structure
            for bi, (fileidx, labs, bp, s) in enumerate(lang.base):
                if labs == ['M'] or any(not lang.groups.get(l) for l in labs):
                    continue
                ub = mid(base_regs, bi)
                if ref_select(base_regs, ub) != bi:
                    continue
                pregs = [pos_regs(l) for l in labs]
                for j, l in enumerate(labs):
                    for u, ok, kind in probes(pregs[j]):
                        floats = [ub] + [mid(pregs[q], 0) for q in range(len(labs))]
                        floats[1 + j] = u
                        item = walk(floats)
                        run.ev('probes'); run.evals += 1
                        got = [x for x in item['pt']]
                        if [x[0] for x in got] != labs:
                            run.violation(f'walk for base {s}: structure changed to {[x[0] for x in got]}', case); return
                        if got[j][1] not in ok or any(got[q][1] != 0 for q in range(len(labs)) if q != j):
                            run.violation(f'position {j} ({l}) of {s}, draw u={u!r} ({kind}): selected group {got[j][1]}, reference sampler selects {sorted(ok)} '
                                          f'(group weights prob x size = {[float(Fraction(p) * len(v)) for p, v in lang.groups[l]]})', case,
                                          observed=[x[1] for x in got], expected=sorted(ok)); return
                        if len(pregs[j]) >= 2 and kind in ('mid', 'left-edge', 'right-edge'):
                            run.nontrivial(h([case.get('spec', case.get('train')), s, j, sorted(ok), kind]))
                # ---- the word for a derivation: scripted choice indices
                for _ in range(3):
                    idx = [rng.randrange(len(lang.groups[l])) for l in labs]
                    ch = [rng.randrange(len(lang.groups[l][i][1])) for l, i in zip(labs, idx)]
                    pt = [(l, i) for l, i in zip(labs, idx)]
                    script.choices = list(ch)
                    lines, n = [], None
                    pcfg.print_guess = lines.append
                    try:
                        with scripted(script):
                            n = pcfg.create_guesses(pt, is_honeyword=True)
                    finally:
                        del pcfg.print_guess
                    run.ev('honeyword_expansions')
                    # reference word
                    word, q = '', 0
                    while q < len(labs):
                        v = lang.groups[labs[q]][idx[q]][1][ch[q]]
                        if labs[q][0] == 'A' and q + 1 < len(labs) and labs[q + 1][0] == 'C':
                            word += oracles.apply_mask(v, lang.groups[labs[q + 1]][idx[q + 1]][1][ch[q + 1]]); q += 2
                        else:
                            word += v; q += 1
                    if lines != [word] or n != 1:
                        run.violation(f'honeyword for derivation {pt} with value choices {ch}: wrote {lines} (returned {n}), reference derivation gives {word!r}', case); return
        finally:
            pg.random = real_random
        # ---- CLI: exactly N words of the language; random_walk reproducible
        if rng.random() < (0.35 if run.tier == 'quick' else 0.15):
            words = None
            if lang.size() < 20000:
                words = set()
                for bi2, idx2, pr, labs2 in lang.preterminals():
                    if labs2 != ['M']:
                        words.update(lang.expand(labs2, list(idx2)))
            fl = ['--skip_brute'] if sb else []
            nwords = rng.choice([1, 7, 40])
            out, err, rc, to = cli.run_cli('pcfg_guesser.py', ['-r', name, '-s', sn, '-m', 'honeywords', '-n', str(nwords)] + fl, stdin_mode='eof', timeout=60, max_out=1 << 20)
            run.ev('cli_runs')
            lines = out.decode('utf-8', 'replace').split('\n')[:-1] if out else []
            if not to:
                if len(lines) != nwords:
                    run.violation(f'honeywords --limit {nwords} wrote {len(lines)} lines', case, observed={'stderr_tail': err[-300:].decode('utf-8', 'replace')}); return
                if words is not None and any(w not in words for w in lines):
                    run.violation('a honeyword is not in the non-Markov language of the ruleset', case, observed=[w for w in lines if w not in words][:4]); return
            a = cli.run_cli('pcfg_guesser.py', ['-r', name, '-s', sn, '-m', 'random_walk', '-n', '30'] + fl, stdin_mode='eof', hashseed='1', timeout=60, max_out=1 << 20)
            b = cli.run_cli('pcfg_guesser.py', ['-r', name, '-s', sn, '-m', 'random_walk', '-n', '30'] + fl, stdin_mode='eof', hashseed='77', timeout=60, max_out=1 << 20)
            run.ev('cli_runs', 2); run.ev('random_walk_pairs')
            if not a[3] and not b[3]:
                if a[0] != b[0] or a[0].count(b'\n') != 30:
                    run.violation(f'two random_walk runs differ or did not write 30 lines ({a[0].count(10)} / {b[0].count(10)})', case,
                                  observed=[a[0][:80].decode('utf-8', 'replace'), b[0][:80].decode('utf-8', 'replace')]); return
                # --load has no meaning in these modes (nothing is saved): with it - whether or not a save file of an ordinary session exists under the
                # session name - the run produces the same 30 words from the ruleset named on the command line
                for prep in (('no_save_file', 'save_file_of_another_session') if rng.random() < 0.3 else ()):
                    s2 = sn + '_ld'
                    session.drop_session(s2)
                    if prep == 'save_file_of_another_session':
                        cli.run_cli('pcfg_guesser.py', ['-r', 'Default', '-s', s2, '-n', '3', '--all_lower'], stdin_mode='eof', timeout=60, max_out=1 << 20) \
                            if os.path.isdir(os.path.join(repo.scratch(), 'Rules', 'Default')) else \
                            cli.run_cli('pcfg_guesser.py', ['-r', name, '-s', s2, '-n', '3', '--all_lower'] + ([] if sb else ['--skip_brute']), stdin_mode='eof', timeout=60, max_out=1 << 20)
                    c_ = cli.run_cli('pcfg_guesser.py', ['-r', name, '-s', s2, '-m', 'random_walk', '-n', '30', '--load'] + fl, stdin_mode='eof', timeout=60, max_out=1 << 20)
                    run.ev('cli_runs', 2); run.ev('honeyword_runs_with_load')
                    session.drop_session(s2)
                    if not c_[3] and c_[0] != a[0]:
                        run.violation(f'random_walk --limit 30 --load ({prep}): output differs from the same run without --load ({c_[0].count(10)} lines)', case,
                                      observed={'head': c_[0][:80].decode('utf-8', 'replace'), 'stderr_tail': c_[1][-200:].decode('utf-8', 'replace')}); return
        run.ev('rulesets')
        run.sample({'kind': case['kind'], 'base': [(b[3], b[2]) for b in lang.base][:4], 'flags': case['flags'], 'base_regions': [[float(lo), float(hi)] for lo, hi in base_regs][:4]})
    finally:
        session.drop_session(sn)
        repo.drop_rules(name)

def distribution_case(rng, shape=None):
    """Tie groups of several values at every level: whatever the tool draws with, the values inside a group are equally likely and independent of the draw that
    chose the group."""
    shape = shape or rng.choice(['two', 'three'])
    if shape == 'two':
        # the third structure holds a word that is not in Unicode normal form C (GREEK SMALL LETTER ALPHA WITH OXIA): the word is that code point
        base = [['D1', 0.2], ['D2', 0.6], ['A3', 0.2]]
        terms = {'D1': [['1', 0.5], ['2', 0.5]], 'D2': [['11', 0.5], ['22', 0.5]], 'A3': [['ab\u1f71', 0.5], ['xyz', 0.5]], 'C3': [['LLL', 0.5], ['ULL', 0.5]]}
    else:
        base = [['A3', 0.45], ['D2', 0.25], ['O1D1', 0.2], ['X1', 0.1]]
        terms = {'A3': [['abc', 0.35], ['d\xe9g', 0.35], ['fox', 0.3]], 'C3': [['LLL', 0.5], ['ULL', 0.5]], 'D2': [['12', 0.4], ['34', 0.4], ['56', 0.2]],
                 'O1': [['!', 0.5], ['#', 0.5]], 'D1': [['7', 0.6], ['8', 0.4]],
                 'X1': [['Mr.', 1 / 3], [';p', 1 / 3], ['No.1', 1 / 3]]}          # context strings: one tie group, values of two, three and four characters
    return {'spec': {'encoding': 'utf-8', 'uuid': 'dist-%08x' % rng.getrandbits(32), 'base': base, 'prince': [], 'terms': terms, 'omen': None}, 'distribution': True,
            'n': 6000, 'hseed': rng.getrandbits(32)}

def check_distribution(run, case):
    """The real generator, not a scripted one: N words from each random mode; the frequency of every word is compared with its probability under the ruleset.
    A word is reported only when it is more than 7 standard deviations off (chance about 1e-11 per word for a correct sampler): this finds a sampler whose
    draws are not independent of each other, which probing one draw at a time cannot see."""
    import math
    name, path = gstream.materialise(case['spec'], 'c16d')
    sn = session.new_session_name('c16d')
    try:
        disk = oracles.Disk(path)
        lang = oracles.Language(disk, True, False)
        exact = Counter()
        tot = sum(bp for bi, labs, bp, s_ in lang.base)
        for bi, idx, pr, labs in lang.preterminals(cap=5000):
            words = lang.expand(labs, list(idx))
            # a pre-terminal of probability pr stands for len(words) derivations of probability pr each
            for w in words:
                exact[w] += pr / tot
        z = sum(exact.values())
        # probabilities of single derivations: normalise over the whole language (the grammar's distribution over its derivations)
        exact = {w: p_ / z for w, p_ in exact.items()}
        for mode in ('random_walk', 'honeywords'):
            r = session.run_main(['-r', name, '-s', sn, '-m', mode, '-n', str(case['n'])], max_guesses=case['n'] + 10)
            run.ev('distribution_runs')
            if r.exc is not None or len(r.guesses) != case['n']:
                run.violation(f'{mode} --limit {case["n"]} wrote {len(r.guesses)} words (exception {r.exc!r})', case); return
            got = Counter(r.guesses)
            foreign = [w for w in got if w not in exact]
            if foreign:
                run.violation(f'{mode}: words outside the language of the ruleset: {foreign[:5]}', case); return
            N_ = case['n']
            for w, p_ in sorted(exact.items()):
                if N_ * p_ < 20:
                    continue
                zscore = (got.get(w, 0) - N_ * p_) / math.sqrt(N_ * p_ * (1 - p_))
                run.ev('word_frequencies_compared')
                if abs(zscore) > 7:
                    run.violation(f'{mode} -n {N_}: {w!r} has probability {p_:.4f} under the ruleset but was drawn {got.get(w, 0)} times ({got.get(w, 0) / N_:.4f}; {zscore:+.1f} standard deviations)',
                                  case, observed={w_: round(got.get(w_, 0) / N_, 4) for w_ in sorted(exact)}, expected={w_: round(p2, 4) for w_, p2 in sorted(exact.items())}); return
        # the same two modes through the command line with a standard output in a legacy code page (the words hold a Latin-1 letter): every line, decoded the way
        # the consumer was told, is a word of the ruleset
        for mode in (('random_walk', 'honeywords') if all(w.encode('latin-1', 'ignore').decode('latin-1') == w for w in exact) else ()):
            for oenc in ('latin-1', 'cp1252'):
                out, err, rc, to = cli.run_cli('pcfg_guesser.py', ['-r', name, '-s', sn, '-m', mode, '-n', '80'], stdin_mode='eof', timeout=60, max_out=1 << 20,
                                               env={'PYTHONIOENCODING': oenc})
                run.ev('cli_runs'); run.ev('random_mode_runs_with_a_legacy_stdout')
                if to:
                    continue
                lines = out.decode(oenc, 'replace').split('\n')[:-1] if out else []
                foreign = [w for w in lines if w not in exact]
                if foreign or len(lines) != 80:
                    run.violation(f'pcfg_guesser.py -m {mode} -n 80 with a {oenc} standard output: {len(lines)} lines, {len(foreign)} of them are not words of the ruleset: {foreign[:4]}', case,
                                  observed=foreign[:6]); return
        run.case(h(['distribution', case['spec']['base'], case['spec']['terms']]))
    finally:
        session.drop_session(sn)
        repo.drop_rules(name)

LONG_N = 100005
def check_long_run(run, case):
    """More than 100 000 walks in one process, through the command line: whatever the session does every so many walks (progress, statistics), standard output holds
    exactly N lines and every one is a word of the ruleset (seeded C16s: a progress line every 100 000th walk, printed to standard output by mistake)."""
    name, path = gstream.materialise(case['spec'], 'c16l')
    sn = session.new_session_name('c16l')
    try:
        lang = oracles.Language(oracles.Disk(path), True, False)
        words = set()
        for bi, idx, pr, labs in lang.preterminals(cap=5000):
            words.update(lang.expand(labs, list(idx)))
        for mode in ('random_walk', 'honeywords'):
            out, err, rc, to = cli.run_cli('pcfg_guesser.py', ['-r', name, '-s', sn, '-m', mode, '-n', str(LONG_N)], stdin_mode='eof', timeout=600, max_out=1 << 25)
            run.ev('cli_runs'); run.ev('long_random_runs')
            if to:
                run.inconc(f'{mode} -n {LONG_N} did not end within the watchdog'); return
            lines = out.decode('utf-8', 'replace').split('\n')[:-1] if out else []
            run.ev('GUESS', len(lines))
            foreign = [(i + 1, w[:80]) for i, w in enumerate(lines) if w not in words]
            if foreign or len(lines) != LONG_N:
                run.violation(f'pcfg_guesser.py -m {mode} -n {LONG_N}: standard output holds {len(lines)} lines, {len(foreign)} of them are not words of the ruleset (first: {foreign[:2]})', case,
                              observed={'stderr_tail': err[-200:].decode('utf-8', 'replace')}); return
        run.case(h(['long-run', case['spec']['base'], case['spec']['terms']]))
    finally:
        session.drop_session(sn)
        repo.drop_rules(name)

def run(run, rng):
    run.required_events = ['probes', 'honeyword_expansions', 'cli_runs', 'random_walk_pairs']
    run.min_distinct = 30
    run.exhaustive = True
    run.extra['exhaustive_scope'] = 'every region of every uniform draw (base and each variable position) of each explored ruleset is probed; rulesets themselves are sampled'
    run.assumptions = ['distribution claimed = conditional on a non-Markov structure being drawn (a Markov draw yields no word and the session draws again)',
                       'for un-normalised (edited) rulesets the reference distribution is the normalised one',
                       'at a breakpoint +-1 ulp either neighbouring region is accepted (float vs exact cumulative sums)']
    if run.shard[0] == 1 % run.shard[1]:
        # exactly N words also when almost every walk lands on the Markov structure (P(M) = 0.999) and has to be redrawn
        from . import c09
        run.ev('markov_heavy_cases')
        run.guard(c09.markov_heavy_case(rng, 'quick'), c09.check_markov_heavy, seconds=600)
    for k, shape in ((2, 'two'), (3, 'three')):
        if run.shard[0] == k % run.shard[1]:
            run.guard(distribution_case(rng, shape), check_distribution, seconds=600)
    if run.shard[0] == 3 % run.shard[1]:
        import random as _r
        lc = distribution_case(_r.Random(4242), 'two'); lc['long_run'] = True
        run.guard(lc, check_long_run, seconds=900)
    if run.shard[0] == 0:
        for zc in trained.ZERO_KEYSPACE_CASES:
            run.ev('zero_keyspace_trainings')
            run.guard({'kind': 'trained', 'train': dict(zc), 'flags': {'skip_brute': False}, 'hseed': 1}, check_case, seconds=300)
    for i in range(N[run.tier]):
        run.guard(gen_case(rng), check_case, seconds=300)

def replay(run, case):
    if case['case'].get('long_run'):
        check_long_run(run, case['case'])
    elif case['case'].get('distribution'):
        check_distribution(run, case['case'])
    else:
        check_case(run, case['case'])
