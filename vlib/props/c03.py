"""C03 — every supported training password is reproduced by the trained grammar; probabilities sum to 1."""
import os
from collections import Counter
from .. import repo, oracles, monitors, gstream, trained, trainlists
from ..evidence import h

LEVEL = 'exploration'
RULE = ('training lists of 3-15 distinct passwords with multiplicities 1/2/6 from fragment pools (words incl. words frequent enough to trigger multi-word '
        'splitting, multi-words, digits, years, symbols, spaces, keyboard walks, context strings, Cyrillic / Greek / Latin-1 words, non-BMP symbols, '
        'e-mails and URLs, mixed case) x coverage {0.3,0.6,1.0} x ngram 2-5 x alphabet {10,100} x encoding {utf-8, latin-1, cp1251, cp1252, ascii, iso-8859-7}; '
        'the real run_trainer writes the ruleset, the real guesser (skip_brute) is run to exhaustion with every create_guesses recorded. '
        'non-trivial = list in which a password has >=3 segments, a multi-word split or a non-ASCII letter; distinct by hash(list, options)')
SHARDS = {'quick': 4, 'thorough': 16}
N = {'quick': 150, 'thorough': 2500}

def check_case(run, case):
    name, path, res = trained.train_case(case, 'c03')
    try:
        if not res.ok:
            # the property speaks about trainings that complete; an aborted one is counted, not judged
            run.ev('trainings_not_completed')
            run.inconc('training did not complete: ' + (repr(res.exc) if res.exc is not None else res.stdout.strip().split('\n')[-1][:60]))
            return
        run.ev('SEGMENTED', len(res.segmented))
        disk = oracles.Disk(path)
        lang = oracles.Language(disk, skip_brute=True)
        if not lang.base:
            # every training password had an e-mail / website segment: nothing is claimed for such a list (the Markov-only ruleset cannot even be
            # loaded with --skip_brute, see C14)
            run.ev('lists_without_supported_password'); run.inconc('no supported password in the list'); return
        est = 0
        for bi, labs, bp, s in lang.base:
            k = 1
            for l in labs:
                k *= sum(len(g[1]) for g in lang.groups.get(l, []))
            est += k
        if est > 300000:
            run.inconc('language above cap'); return
        emitted = Counter()
        total = [0.0]
        def expand(rec, item, pcfg):
            lines, n = monitors.record_guesses(pcfg, item['pt'])
            emitted.update(lines)
            total[0] += item['prob'] * n
            run.ev('GUESS', len(lines))
        pcfg, mon = gstream.run_queue(path, dict(skip_brute=True, skip_case=False, folder='Grammar'), expand=expand, max_pops=400000)
        run.ev('POP', len(mon.pops))
        seen_pw = set()
        nontriv = False
        for pw, secs in res.segmented:
            labs = [l for _, l in secs]
            if pw in seen_pw:
                continue
            seen_pw.add(pw)
            supported = not any(l[0] in 'EW' for l in labs)
            multi = any(a[0] == 'A' and b[0] == 'A' for a, b in zip(labs, labs[1:]))
            if len(labs) >= 3 or multi or any(ord(c) > 127 and c.isalpha() for c in pw):
                nontriv = True
            if not supported:
                run.ev('passwords_with_email_or_website'); continue
            if not trained.in_case_domain(pw):
                run.ev('passwords_outside_case_domain'); continue
            run.ev('passwords_checked')
            if multi:
                run.ev('multiword_passwords_checked')
            if emitted[pw] == 0:
                near = [g for g in emitted if g.lower() == pw.lower()][:4]
                run.violation(f'training password {pw!r} (structure {"".join(labs)}) is never generated from the trained ruleset', case,
                              observed={'segments': secs, 'same_letters_other_case': near, 'language_size': sum(emitted.values())})
                return
        # the passwords of the LIST are the training passwords: one the trainer never parsed (read differently, dropped) cannot have been learned
        for pw in dict.fromkeys(p for p, k in case['items']):
            if pw in seen_pw or not oracles.valid_password(pw) or not trainlists.encodable(pw, case['encoding']):
                continue
            run.ev('list_passwords_the_trainer_never_parsed')
            if '@' in pw or '.' in pw or not trained.in_case_domain(pw) or (pw.startswith('$HEX[') and pw.endswith(']')):
                continue          # could hold an e-mail / website segment, or is outside the stated domain: nothing is claimed
            if emitted[pw] == 0:
                near = [g for g, _ in res.segmented if g.strip() == pw.strip()][:3]
                run.violation(f'password {pw!r} of the training list was not trained on (the trainer parsed {near} instead) and is never generated from the trained ruleset', case,
                              observed={'parsed_instead': near, 'prefixcount': bool(case.get('prefixcount'))})
                return
        if mon.pops and abs(total[0] - 1.0) > 1e-9:
            run.violation(f'probabilities of all emitted guesses sum to {total[0]!r}, not 1', case, observed=total[0]); return
        if not mon.pops and any(not any(l[0] in 'EW' for _, l in secs) for _, secs in res.segmented):
            run.violation('guesser emitted nothing although supported passwords were trained', case); return
        run.ev('sum_checked')
        if case.get('linked') and mon.pops and sum(emitted.values()) <= 20000 and not case.get('prefixcount'):
            if not check_linked_folder(run, case, emitted):
                return
        run.case(h([case['items'], case['encoding'], case['coverage'], case['ngram']]) if nontriv else None)
        run.sample({'list': case['items'][:6], 'encoding': case['encoding'], 'coverage': case['coverage'], 'ngram': case['ngram'],
                    'segmentation_example': [res.segmented[0][0], res.segmented[0][1]], 'guesses': sum(emitted.values()), 'prob_sum': total[0]})
    finally:
        repo.drop_rules(name)

def check_linked_folder(run, case, emitted):
    """The same list trained by the real trainer.py under a rule name that is a symbolic link to a folder kept somewhere else (rulesets on another disk):
    empty before ('first'), or holding the ruleset of another list ('retrain').  pcfg_guesser.py -r <name> must then generate what the ruleset trained
    in-process generates - the training passwords among it."""
    import shutil
    from .. import cli, session
    s = repo.scratch()
    nm = f'c03lnk_{os.getpid()}'
    link = os.path.join(s, 'Rules', nm)
    target = os.path.join(s, f'elsewhere_{os.getpid()}', nm)
    tf = os.path.join(s, f'c03lnk_{os.getpid()}.txt')
    try:
        os.makedirs(target)
        os.makedirs(os.path.dirname(link), exist_ok=True)
        os.symlink(target, link)
        args = ['-e', case['encoding'], '-c', str(case['coverage']), '-n', str(case['ngram']), '-a', str(case['alphabet'])] + (['--save_sensitive'] if case.get('save_sensitive') else [])
        if case['linked'] == 'retrain':
            open(tf, 'wb').write(b'zzzzfirst1\nzzzzfirst1\nqqqq##77\nother!list\n')
            cli.run_cli('trainer.py', ['-r', nm, '-t', tf, '-e', 'ascii'], stdin_mode='devnull', timeout=120)
        open(tf, 'wb').write(trainlists.render_plain([(p_, k) for p_, k in case['items']], case['encoding']))
        out, err, rc, to = cli.run_cli('trainer.py', ['-r', nm, '-t', tf] + args, stdin_mode='devnull', timeout=120)
        run.ev('trainings_into_a_linked_rule_folder')
        if to:
            run.inconc('CLI training timed out'); return True
        if rc != 0:
            # trainer.py itself says that this training did not complete (it runs with its default maximum length, not the harness bound of the in-process
            # training: a starved OMEN model can make it give up): nothing is claimed
            run.ev('linked_folder_trainings_not_completed'); run.inconc('CLI training did not complete'); return True
        sn = session.new_session_name('c03lnk')
        gout, gerr, grc, gto = cli.run_cli('pcfg_guesser.py', ['-r', nm, '-s', sn, '--skip_brute'], stdin_mode='devnull', timeout=120, max_out=8 << 20)
        session.drop_session(sn)
        if gto:
            run.inconc('CLI guesser timed out'); return True
        got = Counter(gout.decode('utf-8', 'replace').split('\n')[:-1] if gout else [])
        if got != emitted:
            lost = list((emitted - got).elements())[:5]; extra = list((got - emitted).elements())[:5]
            run.violation(f'trainer.py -r NAME with Rules/NAME a symbolic link to a folder elsewhere ({case["linked"]}): pcfg_guesser.py -r NAME does not generate what the ruleset '
                          f'of this list generates ({sum(got.values())} guesses instead of {sum(emitted.values())}; missing {lost}, foreign {extra})', case,
                          observed={'trainer_tail': out[-300:].decode('utf-8', 'replace'), 'guesser_stderr_tail': gerr[-200:].decode('utf-8', 'replace'),
                                    'folder_now': sorted(os.listdir(target))[:12]})
            return False
        run.ev('linked_folder_rulesets_equal_to_the_in_process_one')
        return True
    finally:
        if os.path.islink(link):
            os.unlink(link)
        shutil.rmtree(os.path.dirname(target), ignore_errors=True)
        shutil.rmtree(link + '.partial', ignore_errors=True)
        if os.path.exists(tf):
            os.remove(tf)

def run(run, rng):
    run.required_events = ['SEGMENTED', 'POP', 'GUESS', 'passwords_checked', 'multiword_passwords_checked', 'sum_checked']
    run.min_distinct = 10
    run.assumptions = ['domain of the reproduction claim: letters c with len(c.lower())==1 whose case survives lower()+upper() (stated in the property); others are counted, not judged',
                       'coverage 0 deletes every non-Markov structure by design and is exercised in C06/C14, not here',
                       'encodings: ASCII-compatible single/multi-byte encodings; UTF-16/32 are not usable for rulesets (ASCII-only config/grammar files)',
                       'languages above 300000 guesses are not enumerated (inconclusive)']
    for i in range(N[run.tier]):
        case = trained.gen_train_case(rng, max_len_choices=(21, 21, 8), encodings=['utf-8', 'utf-8', 'utf-8', 'latin-1', 'cp1251', 'cp1252', 'ascii', 'iso-8859-7', 'cp1254', 'utf-8-sig'])
        if i % 12 == 5:
            case['linked'] = ['first', 'retrain'][(i // 12) % 2]
        if i % 7 == 3 and case['encoding'] == 'utf-8':
            # passwords that are not in Unicode normal form C (a base letter followed by a combining mark, as some keyboards and macOS produce them; the Greek
            # question mark U+037E): the training password is that sequence of code points
            case['items'] += [[w, rng.choice([1, 2])] for w in rng.sample(['cafe\u0301', '\u0438\u0306ra1', '\u0391\u0301lpha', 'a\u030a9', 'why\u037e'], 2)]
        if i % 10 == 6 and case['encoding'] == 'utf-8':
            # alpha runs that begin with a capital and hold letters without case between cased ones
            case['items'] += [[w, rng.choice([1, 2])] for w in rng.sample(['Tokyo\u6771\u4eactower', 'Shalom\u05e9\u05dc\u05d5\u05ddworld1', 'Star\u0e44\u0e17\u0e22test', 'a\u4e2db'], 2)]
        if i % 11 == 7 and not case.get('prefixcount') and len(case['items']) >= 4:
            # a raw line holding the DOS end-of-file mark (two lists joined with `copy /b`): a control-character line like any other, in the middle of the list
            case['items'].insert(len(case['items']) // 2, [rng.choice(['lastpw\x1a', '\x1a', 'ab\x1acd']), 1])
        if i % 9 == 4 and not case.get('prefixcount'):
            # lines the trainer has to skip, written as $HEX[..]: what they decode to holds a TAB / line separator (a password no line-oriented file can hold).
            # They are frequent, so that a terminal made from one would not be the last line of its file
            for junk in rng.sample(['\t', 'ab\tcd', '\x0b', 'x\u2028y', '\x1c', 'pw\n', '\r'], 2):
                try:
                    case['items'].append(['$HEX[' + junk.encode(case['encoding']).hex() + ']', rng.choice([3, 4, 6])])
                except UnicodeEncodeError:
                    pass
        run.guard(case, check_case, seconds=240)

def replay(run, case):
    check_case(run, case['case'])
