"""C09 — standard output is exactly the guess stream, and --limit is exact."""
import os, shutil
from collections import Counter
from .. import repo, rulesets, oracles, gstream, session, cli
from ..evidence import h
from . import c15

LEVEL = 'exploration'
RULE = ('generated rulesets (30-6000 guesses, Markov levels interleaved with ordinary structures) x {skip_brute, all_lower} x modes {true_prob_order, '
        'random_walk, honeywords}. In-process: the real main() with -n N for EVERY N in 1..total (total <= 300) or boundary-targeted N (each pre-terminal '
        'boundary +-1, first/middle/last guess of every Markov level) must emit exactly the first N guesses of the unlimited run. Process boundary: the real CLI '
        'as a subprocess - stdout bytes must equal the recorded guess stream joined by newlines (no banner, no diagnostics), also on error paths (unwritable '
        'save file, bad --limit, unloadable ruleset). non-trivial = N strictly inside a pre-terminal or a Markov level; distinct by (ruleset hash, flags, N)')
SHARDS = {'quick': 4, 'thorough': 16}
N = {'quick': 6, 'thorough': 60}
SPAWNS = {'quick': 4, 'thorough': 5}

def gen_case(rng):
    if rng.random() < 0.6:
        case = c15.gen_case(rng)
    else:
        mg, xg = rng.choice([(1, 3), (2, 4)])
        case = {'spec': rulesets.gen_spec(rng, with_m=False, n_base=rng.randint(1, 3), max_len=3, min_groups=mg, max_groups=xg, max_per_group=3), 'hseed': rng.getrandbits(32)}
    if rng.random() < 0.15:
        # four to seven base structures, most of them with exactly the same probability and a less probable one listed between them, one or two values per
        # variable: every N from 1 on is tried, also N below the number of base structures
        nb = rng.randint(4, 7)
        spec = rulesets.gen_spec(rng, with_m=False, n_base=nb, max_len=2, min_groups=1, max_groups=1, max_per_group=2, pool='equal', dup_base=False)
        k = rng.randrange(1, len(spec['base']) - 1)
        tot = len(spec['base']) - 0.5
        spec['base'] = [[s_, (0.5 if i == k else 1.0) / tot] for i, (s_, p_) in enumerate(spec['base'])]
        case = {'spec': spec, 'hseed': rng.getrandbits(32), 'tied_bases': True}
    if case['spec'].get('omen') and rng.random() < 0.6:
        # omen_keyspace.txt is informational (status report): rulesets of older trainers / hand-made ones carry numbers that are too small or too large
        case['spec']['omen']['keyspace'] = [[l, max(0, k + rng.choice([-3, -1, 0, 1, 5, -k, k]))] for l, k in case['spec']['omen']['keyspace']]
    if rng.random() < 0.25:
        rulesets.legacy_variant(rng, case['spec'])         # ruleset in a legacy code page; some upper-cased guesses fall outside it
    if rng.random() < 0.12:
        # the same value listed twice in one probability group of a terminal file (legal: it is then generated twice); the order inside the group is the file's
        groups = [(lab, rows) for lab, rows in case['spec']['terms'].items() if lab[0] in 'ADOK' and len(rows) >= 2]
        if groups:
            lab, rows = rng.choice(groups)
            p0 = rows[0][1]
            width = lab[1:]
            fill = {'A': 'qzxj', 'D': '7391', 'O': '!#%&', 'K': '1qaz'}[lab[0]]
            extra = [(fill * 8)[k:k + int(width)] for k in range(3)] if lab[0] != 'K' else []
            rows[:0] = [[rows[0][0], p0]] + [[v, p0] for v in extra if len(v) == int(width)]
            case['dup_value'] = lab
    case['flags'] = {'skip_brute': rng.random() < 0.25, 'all_lower': rng.random() < 0.25}
    return case

def argv_flags(flags):
    return (['--skip_brute'] if flags.get('skip_brute') else []) + (['--all_lower'] if flags.get('all_lower') else [])

def check_case(run, case, tier='quick'):
    import random
    rng = random.Random(case['hseed'])
    name, path = gstream.materialise(case['spec'], 'c09')
    sn = session.new_session_name('c09')
    try:
        fl = argv_flags(case['flags'])
        U = session.run_main(['-r', name, '-s', sn] + fl)
        if U.exc is not None:
            run.violation(f'unlimited run raised {U.exc!r}', case, observed=U.stderr[-300:]); return
        if U.stdout != '':
            run.violation('the tool wrote to stdout outside print_guess (in-process capture)', case, observed=U.stdout[:200]); return
        if U.stdout_missing:
            run.violation(f'{len(U.stdout_missing)} guess(es) handed to print_guess never reached standard output (they were written somewhere else)', case,
                          observed=U.stdout_missing[:5]); return
        Ug = U.guesses
        total = len(Ug)
        if '' in Ug:
            k = Ug.index('')
            run.violation(f'line {k + 1} of the unlimited run is empty: not a guess of this ruleset (no terminal is empty)', case, observed=Ug[max(0, k - 2):k + 3]); return
        if total < 3 or total > (20000 if case.get('big_level') else 6000):
            run.inconc('stream size outside 3..6000'); return
        Upg = c15.pops_with_guesses(U)
        bounds, t = set(), 0
        inside = set()
        for key, prob, gs in Upg:
            if key[0] == ('M',) and gs:
                bounds.update({t + 1, t + len(gs) // 2, t + len(gs) - 1, t + len(gs)})
            bounds.update({t - 1, t, t + 1})
            for x in range(t + 1, t + len(gs)):
                inside.add(x)
            t += len(gs)
        bounds.update({1, total - 1, total, total + 1, total + 7})
        if case.get('big_level'):
            # inside a Markov level of thousands of strings: round numbers of guesses taken from the level (a tool that writes in blocks ends a block there)
            t = 0
            for key, prob, gs in Upg:
                if key[0] == ('M',) and len(gs) >= 1000:
                    bounds.update(t + k for k in (100, 128, 255, 256, 500, 512, 999, 1000, 1001, 1024, 2000, 2048, 3000, 4096, 5000, 8192, 10000) if k <= len(gs))
                t += len(gs)
        if case.get('wide_group'):
            bounds.update({250, 255, 256, 257, 258, 259, 300, case['wide_group'] - 1, case['wide_group'], case['wide_group'] + 1, 512, 513})
        exhaustive = total <= 300 or (tier == 'thorough' and total <= 1500)
        Ns = list(range(1, total + 3)) if exhaustive else sorted(n for n in bounds | set(rng.sample(range(1, total), 40)) if n >= 1)
        for n in Ns:
            r = session.run_main(['-r', name, '-s', sn, '-n', str(n)] + fl, max_guesses=total + 1000)
            run.ev('limit_runs')
            exp = Ug[:n]
            if r.exc is not None and r.guesses == exp:
                run.violation(f'--limit {n}: main() ended with {r.exc!r} after emitting the right guesses', case, observed=r.stderr[-300:]); return
            if r.stdout != '' or r.stdout_missing:
                run.violation(f'--limit {n}: standard output is not exactly the {len(r.guesses)} guesses handed to print_guess (extra text {r.stdout[:80]!r}, {len(r.stdout_missing)} missing)', case,
                              observed=r.stdout_missing[:5]); return
            if r.guesses != exp or r.exc is not None:
                k = next((i for i, (a, b) in enumerate(zip(r.guesses, exp)) if a != b), min(len(r.guesses), len(exp)))
                run.violation(f'--limit {n}: emitted {len(r.guesses)} guesses, expected the first {len(exp)} of the unlimited run (total {total}); first difference at {k}', case,
                              observed=r.guesses[max(0, k - 2):k + 3], expected=exp[max(0, k - 2):k + 3]); return
            run.case(h([case['spec']['base'], case['flags'], n, total]) if n in inside else None)
        if exhaustive:
            run.ev('rulesets_with_every_N')
        # ---- honeyword modes honour --limit too: exactly N words; random_walk prefixes are consistent
        if not case['flags'].get('skip_brute') or True:
            big = session.run_main(['-r', name, '-s', sn, '-m', 'random_walk', '-n', '25'] + fl, max_guesses=5000)
            if big.exc is None and len(big.guesses) == 25:
                for n in (1, 2, 7, 24):
                    r = session.run_main(['-r', name, '-s', sn, '-m', 'random_walk', '-n', str(n)] + fl, max_guesses=5000)
                    run.ev('limit_runs'); run.ev('random_walk_limit_runs')
                    if r.guesses != big.guesses[:n]:
                        run.violation(f'random_walk --limit {n} is not the first {n} words of --limit 25', case, observed=r.guesses[:5], expected=big.guesses[:n][:5]); return
                r = session.run_main(['-r', name, '-s', sn, '-m', 'honeywords', '-n', '9'] + fl, max_guesses=5000)
                run.ev('limit_runs')
                if len(r.guesses) != 9:
                    run.violation(f'honeywords --limit 9 wrote {len(r.guesses)} words', case); return
            elif big.exc is not None and not isinstance(big.exc, IndexError):
                run.violation(f'random_walk raised {big.exc!r}', case, observed=big.stderr[-300:]); return
        # ---- --limit on a resumed session: the first N guesses of the resumed run (a limited resume does not save, so the .sav can be reused)
        if len(U.pops) >= 4:
            kq = rng.randint(2, len(U.pops) - 1)
            fired = {}
            # the quit lands at a pre-terminal boundary or - where the stream has Markov levels of several strings - in the middle of such a level, so that the
            # resumed run begins with the remainder of the level
            inside_markov = [(i, len(gs)) for i, (key, prob, gs) in enumerate(Upg) if key[0] == ('M',) and len(gs) >= 4]
            mk = rng.choice(inside_markov) if inside_markov and rng.random() < 0.6 else None
            def trig(ev, ctx, kq=kq, fired=fired, mk=mk):
                if 'x' in fired:
                    return
                if mk is None and ev[0] == 'POP' and ev[1] == kq:
                    fired['x'] = ctx.deliver('q')
                elif mk is not None and ev[0] == 'GUESS' and ev[3] == mk[0] and ev[4] == max(1, mk[1] // 3):
                    fired['x'] = ctx.deliver('q')
            session.drop_session(sn)
            A = session.run_main(['-r', name, '-s', sn] + fl, trigger=trig)
            if fired.get('x') and 'Done processing' not in A.stderr:
                if mk is not None:
                    run.ev('limit_on_sessions_resumed_inside_a_markov_level')
                sav = open(session.session_files(sn)[0]).read()
                omn = open(session.session_files(sn)[1], 'rb').read() if os.path.exists(session.session_files(sn)[1]) else None
                Bref = session.run_main(['-r', name, '-s', sn, '--load'])
                for n in sorted({1, 2, 3, max(1, len(Bref.guesses) // 2), max(1, len(Bref.guesses) - 1), len(Bref.guesses) + 3, len(A.guesses) + 1, max(1, len(A.guesses) - 1)}):
                    open(session.session_files(sn)[0], 'w').write(sav)
                    if omn is not None:
                        open(session.session_files(sn)[1], 'wb').write(omn)
                    # flags repeated or contradicted on --load change nothing (they come from the save file) - and nothing about them belongs on standard output
                    xf = rng.choice([[], [], ['--skip_brute'], ['--all_lower'], ['--skip_brute', '--all_lower']])
                    r = session.run_main(['-r', name, '-s', sn, '--load', '-n', str(n)] + xf, max_guesses=len(Bref.guesses) + 1000)
                    run.ev('limit_runs'); run.ev('limit_on_resumed_session_runs')
                    if r.stdout != '':
                        run.violation(f'--load --limit {n} {xf}: the tool wrote to standard output outside the guess stream', case, observed=r.stdout[:200]); return
                    if r.guesses != Bref.guesses[:n]:
                        run.violation(f'--load --limit {n}: emitted {len(r.guesses)} guesses, expected the first {min(n, len(Bref.guesses))} of the resumed run '
                                      f'(the first session had emitted {len(A.guesses)})', case, observed=r.guesses[:5], expected=Bref.guesses[:n][:5]); return
                    run.case(h([case['spec']['base'], case['flags'], 'load', n]))
        # ---- status / help / quit requests from the keyboard thread must never reach stdout either, whatever the session's age
        from .. import sched
        U0, s0 = sched.run_scheduled(['-r', name, '-s', sn] + fl)
        for act in ('', 'h', 'q', '', 'h'):
            age = rng.choice([None, 3600, 86400, 172800, 250000, 10 ** 8])
            p = rng.randint(1, max(1, s0.m_idx))
            session.drop_session(sn)
            # the helper thread either acts at once or is parked in the middle of its answer (inside the status report / the help screen) while guesses go on
            hold = rng.choice([None, None, 'in:print_status', 'in:print_help', 'in:get_status', rng.randint(1, 60)])
            r, sc = sched.run_scheduled(['-r', name, '-s', sn] + fl, [sched.Step(p, act, hold, p + rng.randint(1, 60))], age=age)
            run.ev('status_request_runs')
            if r.stdout != '':
                run.violation(f'a {act!r} request at yield point {p} (session age {age}s) made the tool write to stdout outside the guess stream', case,
                              observed=r.stdout[:120]); return
            if r.stdout_missing:
                run.violation(f'{len(r.stdout_missing)} guess(es) handed to print_guess never reached standard output (they were written somewhere else)', case,
                              observed=r.stdout_missing[:5]); return
            # what was written are the guesses of the stream: all of them after a status / help request, a prefix after a quit
            if r.exc is None and (r.guesses != Ug[:len(r.guesses)] or (act != 'q' and len(r.guesses) != len(Ug))):
                k = next((i for i, (a, b) in enumerate(zip(r.guesses, Ug)) if a != b), min(len(r.guesses), len(Ug)))
                run.violation(f'a {act!r} request at yield point {p} (helper held: {hold}): the lines written are not the guess stream ({len(r.guesses)} lines, stream {len(Ug)}; first difference at line {k + 1})',
                              case, observed=r.guesses[max(0, k - 2):k + 3], expected=Ug[max(0, k - 2):k + 3]); return
        # ---- the process boundary: stdout bytes == the stream
        ref = ('\n'.join(Ug) + '\n').encode('utf-8')
        picks = [None] + rng.sample(Ns, min(len(Ns), SPAWNS[tier] - 1))
        for n in picks:
            args = ['-r', name, '-s', sn + 'cli'] + fl + ([] if n is None else ['-n', str(n)])
            out, err, rc, to = cli.run_cli('pcfg_guesser.py', args, stdin_mode=rng.choice(['open', 'eof', 'devnull']), hashseed=rng.choice(['0', '1', '12345', '987654']))
            run.ev('cli_runs')
            if to:
                run.inconc('cli watchdog'); continue
            exp = ref if n is None else ('\n'.join(Ug[:n]) + '\n').encode('utf-8') if Ug[:n] else b''
            if out != exp:
                lines = out.split(b'\n')
                run.violation(f'CLI {" ".join(args[2:])}: stdout ({len(lines) - 1} lines) is not exactly the guess stream ({exp.count(10)} lines)', case,
                              observed={'head': out[:120].decode('utf-8', 'replace'), 'tail': out[-80:].decode('utf-8', 'replace')},
                              expected={'head': exp[:60].decode('utf-8', 'replace')}); return
            run.case(h(['cli', case['spec']['base'], case['flags'], n]))
        # ---- standard error goes away after start-up (a logger that exits, `2>&1 | head`): standard output still carries the first N guesses
        if total >= 20 and rng.random() < 0.25:
            nlim = rng.choice([total, max(10, total // 2), max(10, total - 3)])
            out, seen, rc, to = cli.run_cli_stderr_closed('pcfg_guesser.py', ['-r', name, '-s', sn + 'err', '-n', str(nlim)] + fl)
            run.ev('cli_runs'); run.ev('runs_with_stderr_closed_after_start_up')
            session.drop_session(sn + 'err')
            exp = ('\n'.join(Ug[:nlim]) + '\n').encode('utf-8')
            if not to and out != exp:
                run.violation(f'--limit {nlim} with standard error closed after start-up: standard output holds {out.count(10)} lines, expected the first {min(nlim, total)} guesses', case,
                              observed={'stderr_seen_tail': seen[-150:].decode('utf-8', 'replace')}); return
        # ---- a standard output that cannot represent every guess (a consumer on an ASCII / Latin-1 pipe).  Today such a guess is silently left out; whatever
        # the tool does with it, what it does write is guesses only, in the order of the stream, and every representable guess is there
        configs = []
        if any(not g.isascii() for g in Ug) and (case.get('legacy_fixed') or rng.random() < 0.5):
            # PYTHONIOENCODING=<encoding>[:<error handler>]
            configs = [(rng.choice(['ascii', 'latin-1']), rng.choice([None, None, 'replace', 'backslashreplace', 'xmlcharrefreplace', 'ignore']))]
            if case.get('legacy_fixed'):
                configs = [('ascii', None), ('ascii', rng.choice(['replace', 'backslashreplace', 'xmlcharrefreplace', 'ignore']))]
        for oenc, handler in configs:
            def fits(g):
                try:
                    g.encode(oenc); return True
                except UnicodeEncodeError:
                    return False
            nlim = rng.choice([None, max(1, len(Ug) // 2), max(1, len(Ug) - 1)])
            out, err, rc, to = cli.run_cli('pcfg_guesser.py', ['-r', name, '-s', sn + 'enc'] + fl + ([] if nlim is None else ['-n', str(nlim)]), stdin_mode='devnull',
                                           env={'PYTHONIOENCODING': oenc + (':' + handler if handler else '')})
            run.ev('cli_runs'); run.ev('narrow_stdout_runs')
            if not to and handler:
                # the user chose how unrepresentable characters are rendered: one line per guess, each guess rendered by that handler, --limit exact
                got = out.decode(oenc, 'replace').split('\n')[:-1] if out else []
                want = [g.encode(oenc, handler).decode(oenc) for g in (Ug if nlim is None else Ug[:nlim])]
                if got != want:
                    k = next((i for i, (a_, b_) in enumerate(zip(got, want)) if a_ != b_), min(len(got), len(want)))
                    run.violation(f'stdout {oenc}:{handler}' + ('' if nlim is None else f' --limit {nlim}') + f': {len(got)} lines written, expected {len(want)} (every guess, rendered by the error handler '
                                  f'the user configured); first difference at line {k}', case, observed=got[max(0, k - 2):k + 3], expected=want[max(0, k - 2):k + 3]); return
            elif not to:
                got = out.decode(oenc, 'replace').split('\n')[:-1] if out else []
                want = [g for g in Ug if fits(g)]
                alt = None
                if nlim is not None:
                    # unrepresentable guesses are left out; whether they count towards the limit is not the property's business: accept the representable part
                    # of the first N guesses (today) as well as the first N representable guesses
                    want, alt = [g for g in Ug[:nlim] if fits(g)], [g for g in Ug if fits(g)][:nlim]
                if got != want and got != alt:
                    stream = Counter(Ug)
                    foreign = [g for g in got if g not in stream][:4]
                    k = next((i for i, (a_, b_) in enumerate(zip(got, want)) if a_ != b_), min(len(got), len(want)))
                    run.violation(f'stdout encoding {oenc}: the lines written are not the representable guesses of the stream in stream order '
                                  f'({len(got)} lines, {len(want)} representable guesses, first difference at line {k}; lines that are no guesses: {foreign})', case,
                                  observed=got[max(0, k - 2):k + 3], expected=want[max(0, k - 2):k + 3]); return
        run.sample({'base': case['spec']['base'], 'flags': case['flags'], 'total_guesses': total, 'N_values': len(Ns), 'every_N': exhaustive,
                    'stream_head': Ug[:6]})
    finally:
        for f in os.listdir(repo.scratch()):
            if f.startswith(sn) and f.endswith(('.sav', '.omn')):
                os.remove(os.path.join(repo.scratch(), f))
        repo.drop_rules(name)

def check_error_paths(run, case):
    """stdout must stay free of diagnostics when things go wrong."""
    name, path = gstream.materialise(case['spec'], 'c09e')
    sn = session.new_session_name('c09e')
    s = repo.scratch()
    try:
        U = session.run_main(['-r', name, '-s', sn])
        ref = ('\n'.join(U.guesses) + '\n').encode('utf-8')
        # 1. the save file cannot be written (its path is a directory): guessing still works, stdout must stay clean
        os.makedirs(os.path.join(s, sn + 'dir.sav'), exist_ok=True)
        out, err, rc, to = cli.run_cli('pcfg_guesser.py', ['-r', name, '-s', sn + 'dir'], stdin_mode='eof')
        run.ev('cli_runs'); run.ev('error_path_runs')
        bad = [l for l in out.split(b'\n') if l and l not in set(ref.split(b'\n'))]
        if bad:
            run.violation('unwritable session save file: a diagnostic was written to stdout between the guesses', case,
                          observed=[b.decode('utf-8', 'replace') for b in bad[:3]], mech='stdout-diagnostic-on-error-path'); 
        else:
            run.case(h(['err-save', case['spec']['base']]))
        # 1b. the save file of the session is a symbolic link to a writable file elsewhere (session files kept on another disk): a legal place for it;
        #     --limit N writes the first N guesses like any other session (seeded C09s: O_NOFOLLOW on the save file + a run that gives up when the first save fails)
        import tempfile
        tgt_dir = tempfile.mkdtemp(prefix='pcfgverif_c09lnk_')
        try:
            os.symlink(os.path.join(tgt_dir, 'elsewhere.sav'), os.path.join(s, sn + 'lnk.sav'))
            total = len(U.guesses)
            for n_ in sorted({1, max(1, total // 2), total + 3}):
                out, err, rc, to = cli.run_cli('pcfg_guesser.py', ['-r', name, '-s', sn + 'lnk', '-n', str(n_)], stdin_mode='eof')
                run.ev('cli_runs'); run.ev('symlinked_save_file_runs')
                want = ('\n'.join(U.guesses[:n_]) + '\n').encode('utf-8') if U.guesses else b''
                if not to and out != want:
                    run.violation(f'session whose save file is a symbolic link to a writable file: --limit {n_} wrote {out.count(10)} lines, expected the first {min(n_, total)} guesses', case,
                                  observed={'stderr_tail': err[-300:].decode('utf-8', 'replace')}); break
            else:
                run.case(h(['symlinked-save', case['spec']['base']]))
        finally:
            shutil.rmtree(tgt_dir, ignore_errors=True)
        # 2. invalid --limit values and an unknown ruleset: nothing on stdout
        for args, what in ((['-r', name, '-s', sn, '-n', '-5'], 'negative --limit'), (['-r', name + 'nope', '-s', sn], 'unknown ruleset')):
            out, err, rc, to = cli.run_cli('pcfg_guesser.py', args, stdin_mode='eof')
            run.ev('cli_runs'); run.ev('error_path_runs')
            if out.strip():
                run.violation(f'{what}: a diagnostic was written to stdout', case, observed=out[:200].decode('utf-8', 'replace'), mech='stdout-diagnostic-on-error-path')
            else:
                run.case(h(['err', what, case['spec']['base']]))
    finally:
        shutil.rmtree(os.path.join(s, sn + 'dir.sav'), ignore_errors=True)
        for f in os.listdir(s):
            if f.startswith(sn) and f.endswith(('.sav', '.omn')):
                os.remove(os.path.join(s, f))
        repo.drop_rules(name)

def check_markov_heavy(run, case):
    """Honeyword modes on a ruleset whose Markov structure takes nearly all the probability: almost every walk lands on M and yields no word, and the
    session has to keep drawing until exactly N words are out.  The number of empty walks is a multiple of N (about N x P(M)/(1-P(M)))."""
    import random
    rng = random.Random(case['hseed'])
    name, path = gstream.materialise(case['spec'], 'c09m')
    sn = session.new_session_name('c09m')
    try:
        for mode in ('random_walk', 'honeywords'):
            r = session.run_main(['-r', name, '-s', sn, '-m', mode, '-n', str(case['n'])], max_guesses=case['n'] + 1000)
            run.ev('limit_runs'); run.ev('markov_heavy_honeyword_runs')
            if r.exc is not None:
                run.violation(f'{mode} --limit {case["n"]} on a ruleset with P(M) = {case["pm"]} raised {r.exc!r}', case, observed=r.stderr[-300:]); return
            if len(r.guesses) != case['n'] or r.stdout != '' or r.stdout_missing:
                run.violation(f'{mode} --limit {case["n"]} on a ruleset with P(M) = {case["pm"]} (about {int(case["n"] * case["pm"] / (1 - case["pm"]))} empty walks): '
                              f'wrote {len(r.guesses)} words', case, observed=r.stderr[-300:]); return
        run.case(h(['markov-heavy', case['pm'], case['n']]))
        run.sample({'markov_heavy': True, 'P(M)': case['pm'], 'n': case['n'], 'expected_empty_walks': int(case['n'] * case['pm'] / (1 - case['pm']))})
    finally:
        session.drop_session(sn)
        repo.drop_rules(name)

def wide_group_case(rng):
    """One probability group with several hundred values in the last position of a structure: --limit has to stop inside it at any N, also N > 256
    (numbers the interpreter does not intern) and N just below the group size."""
    n = rng.randint(330, 520)
    vals = ['%03d' % v for v in rng.sample(range(1000), n)]
    p = 1.0 / (2 * n)
    terms = {'D3': [[v, p] for v in vals], 'A2': [['ab', 0.6], ['cd', 0.4]], 'C2': [['LL', 0.7], ['UL', 0.3]], 'O1': [['!', 1.0]]}
    base = rng.choice([[['D3', 0.6], ['A2O1', 0.4]], [['A2D3', 0.7], ['O1', 0.3]], [['O1D3', 1.0]]])
    spec = {'encoding': 'utf-8', 'uuid': 'wide-%08x' % rng.getrandbits(32), 'base': base, 'prince': [], 'terms': terms, 'omen': None}
    return {'spec': spec, 'flags': {'skip_brute': False, 'all_lower': False}, 'hseed': rng.getrandbits(32), 'wide_group': n}

def big_level_case(rng):
    """Markov levels of exactly 1000 and 10 000 strings (ten symbols, every transition at level 0, length 3 at level 0 and length 4 at level 1) beside a small
    PCFG part: --limit at round numbers of guesses inside a level, and levels whose size is itself a round number."""
    import itertools
    alpha = ''.join(rng.sample('abcdefghijklmnopqrstuvwxyz', 10))
    om = dict(ngram=2, ip=[[0, c] for c in alpha], cp=[[0, a + b] for a, b in itertools.product(alpha, repeat=2)], ln=[10, 10, 0, 1] + [10] * 4,
              probs=[[0, 0.0004], [1, 0.00003]], keyspace=[[0, 1000], [1, 10000]])
    terms = {'D2': [['12', 0.5], ['77', 0.3], ['00', 0.2]], 'O1': [['!', 0.6], ['.', 0.4]]}
    base = [['D2O1', 0.3], ['M', 0.6], ['D2', 0.1]]
    spec = {'encoding': 'utf-8', 'uuid': 'biglevel-%08x' % rng.getrandbits(32), 'base': base, 'prince': [], 'terms': terms, 'omen': om}
    return {'spec': spec, 'flags': {'skip_brute': False, 'all_lower': False}, 'hseed': rng.getrandbits(32), 'big_level': True}

def legacy_fixed_case(rng):
    """A ruleset in a legacy code page whose words, once a mask upper-cases them, leave that code page (latin-1: y-diaeresis, micro sign; cp1251: micro sign)."""
    enc = rng.choice(['latin-1', 'latin-1', 'cp1252', 'cp1251'])
    odd = {'latin-1': ['ÿa', 'µm'], 'cp1252': ['µm', 'aµ'], 'cp1251': ['µm', 'µя']}[enc]
    terms = {'A2': [[odd[0], 0.4], ['ab', 0.3], [odd[1], 0.2], ['zz', 0.1]], 'C2': [['LL', 0.5], ['UL', 0.25], ['UU', 0.15], ['LU', 0.1]],
             'D1': [['1', 0.6], ['7', 0.4]], 'O1': [['!', 1.0]]}
    base = [['A2D1', 0.5], ['A2', 0.3], ['A2O1A2', 0.2]]
    spec = {'encoding': enc, 'uuid': 'legacy-%08x' % rng.getrandbits(32), 'base': base, 'prince': [], 'terms': terms, 'omen': None}
    return {'spec': spec, 'flags': {'skip_brute': False, 'all_lower': False}, 'hseed': rng.getrandbits(32), 'legacy_fixed': True}

def check_typed_terminal(run, case):
    """Standard input is a terminal somebody types on (ENTER, h) while standard output is a pipe: the usual way the tool feeds a cracker.  What arrives on the
    pipe is the guess stream and nothing else (no prompt, no echo, no status text)."""
    from . import c12
    name, path = gstream.materialise(case['spec'], 'c09t')
    sn = session.new_session_name('c09t')
    try:
        U = session.run_main(['-r', name, '-s', sn])
        ref = ('\n'.join(U.guesses) + '\n').encode('utf-8') if U.guesses else b''
        # the stream is generated in a fraction of a second: the generator is held by back-pressure (stdout not read) while the requests are typed, then released
        for typed in ([b'\n', b'h\n', b'\n'], [b'\n', b'\n', b'x\n']):
            out, err, rc, to, info = cli.run_cli_blocked('pcfg_guesser.py', ['-r', name, '-s', sn + 'tty'], typed, settle=0.5, use_pty=True)
            run.ev('cli_runs'); run.ev('typed_terminal_runs')
            if to or not info['blocked']:
                run.inconc('cli watchdog / generator not blocked'); continue
            if out != ref:
                got = out.split(b'\n')
                want = set(ref.split(b'\n'))
                foreign = [l.decode('utf-8', 'replace') for l in got if l not in want][:3]
                run.violation(f'requests typed on a terminal while stdout is a pipe: stdout is not the guess stream ({len(got) - 1} lines of {len(U.guesses)}; lines that are no guesses: {foreign})',
                              case, observed=foreign); return
            session.drop_session(sn + 'tty')
        run.case(h(['typed-terminal', case['spec']['uuid']]))
    finally:
        session.drop_session(sn); session.drop_session(sn + 'tty')
        repo.drop_rules(name)

def check_interrupt_signal(run, case):
    """CTRL-C (SIGINT) while the generator is inside a write to a full pipe (a slow cracker on the other end).  Today the run ends there.  Whatever the tool does
    with the signal - stop, save and stop, carry on - what it has written and still writes is the guess stream from its first byte: a byte prefix of it."""
    import signal
    name, path = gstream.materialise(case['spec'], 'c09s')
    sn = session.new_session_name('c09s')
    try:
        U = session.run_main(['-r', name, '-s', sn])
        ref = ('\n'.join(U.guesses) + '\n').encode('utf-8') if U.guesses else b''
        for _ in range(2):
            out, err, rc, to, info = cli.run_cli_blocked('pcfg_guesser.py', ['-r', name, '-s', sn + 'sig'], [], settle=0.5, signal_when_blocked=signal.SIGINT)
            run.ev('cli_runs'); run.ev('runs_interrupted_by_sigint_inside_a_write')
            session.drop_session(sn + 'sig')
            if to or not info['blocked'] or not info.get('signalled'):
                run.inconc('cli watchdog / generator not blocked'); continue
            if ref[:len(out)] != out:
                k = next(i for i, (a, b) in enumerate(zip(out, ref)) if a != b) if any(a != b for a, b in zip(out, ref)) else min(len(out), len(ref))
                ln = out[:k].count(b'\n') + 1
                run.violation(f'SIGINT while the generator was blocked in a write: what reached stdout ({len(out)} bytes, {out.count(10)} lines) is not a prefix of the guess stream; '
                              f'first difference in line {ln}', case, observed={'around': out[max(0, k - 30):k + 30].decode('utf-8', 'replace'), 'stderr_tail': err[-200:].decode('utf-8', 'replace')},
                              expected=ref[max(0, k - 30):k + 30].decode('utf-8', 'replace')); return
            run.ev('interrupted_streams_that_are_a_prefix')
        run.case(h(['sigint', case['spec']['uuid']]))
    finally:
        session.drop_session(sn); session.drop_session(sn + 'sig')
        repo.drop_rules(name)

def markov_heavy_case(rng, tier):
    pm, n = (0.999, 60) if tier == 'quick' else (0.9995, 1200)
    spec = rulesets.gen_spec(rng, with_m=True, labels=['D1', 'A2'], n_base=2, max_len=2, min_groups=1, max_groups=2, max_per_group=3, pool='counts')
    rest = [b for b in spec['base'] if b[0] != 'M'] or [['D1', 1.0]]
    tot = sum(p for _, p in rest)
    spec['base'] = [['M', pm]] + [[s_, (1 - pm) * p / tot] for s_, p in rest]
    for lab in ('D1', 'A2', 'C2'):
        if lab not in spec['terms']:
            spec['terms'][lab] = rulesets.gen_terminal(rng, lab, 'counts', 2, 3)
    return {'spec': spec, 'pm': pm, 'n': n, 'hseed': rng.getrandbits(32), 'markov_heavy': True}

def run(run, rng):
    run.required_events = ['limit_runs', 'cli_runs', 'rulesets_with_every_N', 'random_walk_limit_runs', 'error_path_runs', 'status_request_runs', 'limit_on_resumed_session_runs']
    run.min_distinct = 20
    run.exhaustive = True
    run.extra['exhaustive_scope'] = 'every N in 1..total+2 for explored rulesets with total <= 300 guesses (thorough: <= 1500); larger ones use boundary-targeted N'
    run.assumptions = ['"the unlimited run" = the in-process recording of print_guess for the same ruleset and flags (tied to the language by C02/C04)',
                       'honeywords mode is random: only the count is checked here (distribution: C16)', 'CLI exit status ignored']
    for i in range(N[run.tier]):
        run.guard(gen_case(rng), check_case, run.tier, seconds=600)
    if run.shard[0] == 1 % run.shard[1]:
        run.guard(markov_heavy_case(rng, run.tier), check_markov_heavy, seconds=900)
    if run.shard[0] == 0:
        from . import c12
        run.guard({'spec': c12.huge_spec(rng), 'hseed': 0, 'typed_terminal': True}, check_typed_terminal, seconds=600)
    if run.shard[0] == 3 % run.shard[1]:
        from . import c12
        run.guard({'spec': c12.huge_spec(rng), 'hseed': 0, 'sigint': True}, check_interrupt_signal, seconds=600)
    if run.shard[0] == 3 % run.shard[1]:
        run.ev('legacy_code_page_cases')
        run.guard(legacy_fixed_case(rng), check_case, run.tier, seconds=600)
    if run.shard[0] == 2 % run.shard[1]:
        run.ev('wide_group_cases')
        run.guard(wide_group_case(rng), check_case, run.tier, seconds=600)
        run.ev('big_markov_level_cases')
        run.guard(big_level_case(rng), check_case, run.tier, seconds=900)
    if run.shard[0] == 0:
        case = gen_case(rng)
        case['error_paths'] = True
        run.guard(case, check_error_paths, seconds=300)

def replay(run, case):
    c = case['case']
    if c.get('sigint'):
        check_interrupt_signal(run, c)
    elif c.get('typed_terminal'):
        check_typed_terminal(run, c)
    elif c.get('markov_heavy'):
        check_markov_heavy(run, c)
    elif c.get('error_paths'):
        check_error_paths(run, c)
    else:
        check_case(run, c, 'thorough')
