"""C17 — PRINCE-LING emits the ruleset's words most-probable-first, up to the size asked."""
import os, io, contextlib
from collections import Counter
from .. import repo, rulesets, oracles, monitors, gstream, trained, cli
from ..evidence import h

LEVEL = 'exploration'
RULE = ('trained rulesets and generated ones with ties inside and across PRINCE groups (incl. E/W entries), both --all_lower settings; in-process: the real '
        'create_prince_wordlist with every PcfgQueue.next() monitored and every word recorded, compared with the reference language of the Prince folder; --size N '
        'for EVERY N in 1..total+2 (total <= 400) or boundary-targeted N; CLI: prince_ling.py to stdout and with -o FILE (must be identical, also when FILE already exists with longer content), with --size. '
        'non-trivial = N strictly inside a group of equally probable words; distinct by (ruleset hash, all_lower, N)')
SHARDS = {'quick': 4, 'thorough': 16}
N = {'quick': 45, 'thorough': 400}

def gen_case(rng):
    if rng.random() < 0.4:
        return {'kind': 'trained', 'train': trained.gen_train_case(rng, max_len_choices=(21,), coverages=(0.6, 1.0)), 'all_lower': rng.random() < 0.4, 'hseed': rng.getrandbits(32)}
    labels = rng.sample(['A1', 'A2', 'A3', 'A4', 'D1', 'D2', 'O1', 'O2', 'K4', 'Y1', 'X1'], rng.randint(2, 5))
    spec = rulesets.gen_spec(rng, with_m=False, labels=labels, n_base=2, max_len=2, min_groups=1, max_groups=rng.choice([2, 3, 4]), max_per_group=4,
                             pool=rng.choice(['counts', 'equal', 'dyadic', 'decimal', 'rare']))
    # make sure every label has a terminal list, then build the Prince grammar over all of them
    for lab in labels:
        if lab not in spec['terms']:
            spec['terms'][lab] = rulesets.gen_terminal(rng, lab, 'counts', 3, 4)
            if lab[0] == 'A':
                spec['terms']['C' + lab[1:]] = rulesets.gen_terminal(rng, 'C' + lab[1:], 'counts', 2, 2)
    if rng.random() < 0.4:
        # ratio ties: the word table and its mask table step down by the same factor, so a (word, mask) pair has two parents whose
        # probabilities are equal on paper and differ at most in the last bit as floats
        for lab in [l for l in labels if l[0] == 'A']:
            r = rng.choice([2, 3, 3, 5, 7, 1.5, 4 / 3])
            k1, k2 = rng.randint(2, 4), rng.randint(2, 3)
            t1 = sum(r ** -i for i in range(k1)) * rng.choice([1, 1, 1.25, 2])
            t2 = sum(r ** -i for i in range(k2)) * rng.choice([1, 1, 1.5])
            words = [v for v, _ in spec['terms'][lab]]
            n = int(lab[1:])
            while len(words) < k1:
                words.append(''.join(rng.choice('abcdefgh') for _ in range(n)))
            words = list(dict.fromkeys(words))[:max(k1, len(words))]
            spec['terms'][lab] = [[w, (r ** -min(i, k1 - 1)) / t1] for i, w in enumerate(words)]
            masks = list(dict.fromkeys(['L' * n, 'U' + 'L' * (n - 1), 'U' * n]))[:k2]
            spec['terms']['C' + lab[1:]] = [[m, (r ** -i) / t2] for i, m in enumerate(masks)]
    if rng.random() < 0.3:
        rulesets.add_odd_alpha(rng, spec)
    gstream.add_prince(rng, spec)
    r = rng.random()
    if r < 0.12:
        spec['encoding'] = 'utf-8-sig'          # a ruleset declared "UTF-8 with BOM": every file starts with a byte-order mark, which is not part of its first value
    elif r < 0.3:
        rulesets.legacy_variant(rng, spec)
    return {'kind': 'synthetic', 'spec': spec, 'all_lower': rng.random() < 0.4, 'hseed': rng.getrandbits(32)}

def legacy_prince_case(rng, enc=None):
    """A ruleset in a legacy code page whose most probable alpha words, once a mask upper-cases them, leave that code page: the unrepresentable words sit in the
    middle of the PRINCE list, not at its end."""
    enc = enc or rng.choice(['latin-1', 'cp1251', 'cp1252'])
    odd = {'latin-1': ['ÿa', 'µm'], 'cp1252': ['µm', 'aµ'], 'cp1251': ['µm', 'µя'], 'utf-8-sig': ['ÿa', 'µя']}[enc]
    terms = {'A2': [[odd[0], 0.4], ['ab', 0.3], [odd[1], 0.2], ['zz', 0.1]], 'C2': [['UL', 0.4], ['LL', 0.3], ['UU', 0.2], ['LU', 0.1]],
             'D1': [['1', 0.6], ['7', 0.4]], 'O1': [['!', 0.7], ['.', 0.3]]}
    spec = {'encoding': enc, 'uuid': 'lprince-%08x' % rng.getrandbits(32), 'base': [['A2D1', 0.6], ['A2', 0.4]], 'prince': [['A2', 0.5], ['D1', 0.3], ['O1', 0.2]],
            'terms': terms, 'omen': None}
    return {'kind': 'synthetic', 'spec': spec, 'all_lower': False, 'hseed': rng.getrandbits(32), 'force_cli': True}

def run_prince(path, all_lower, size):
    repo.scratch()
    from lib_princeling.wordlist_generation import create_prince_wordlist
    import lib_guesser.priority_queue as pq
    pcfg = monitors.load_pcfg(path, 'x', skip_case=all_lower, folder='Prince')
    words, probs = [], []
    pcfg.print_guess = words.append
    orig = pq.PcfgQueue.next
    def nxt(self):
        it = orig(self)
        if it is not None:
            probs.append((it['prob'], len(words)))
        return it
    pq.PcfgQueue.next = nxt
    try:
        with contextlib.redirect_stderr(io.StringIO()):
            create_prince_wordlist(pcfg, size)
    finally:
        pq.PcfgQueue.next = orig
    return words, probs

def check_case(run, case, tier='quick'):
    import random
    rng = random.Random(case['hseed'])
    if case['kind'] == 'trained':
        name, path, res = trained.train_case(case['train'], 'c17')
        if not res.ok:
            repo.drop_rules(name); run.ev('trainings_not_completed'); run.inconc('training did not complete'); return
    else:
        name, path = gstream.materialise(case['spec'], 'c17')
    try:
        al = bool(case['all_lower'])
        disk = oracles.Disk(path)
        lang = oracles.Language(disk, all_lower=al, folder='Prince')
        if lang.size() > 5000:
            run.inconc('language above cap'); return
        exp = Counter()
        for bi, idx, pr, labs in lang.preterminals():
            exp.update(lang.expand(labs, list(idx)))
        U, probs = run_prince(path, al, None)
        run.ev('POP', len(probs)); run.ev('WORD', len(U))
        if any(b[0] > a[0] for a, b in zip(probs, probs[1:])):
            run.violation('PRINCE-LING pre-terminals are not in non-increasing probability order', case, observed=[repr(p[0]) for p in probs[:10]]); return
        if Counter(U) != exp:
            miss = list((exp - Counter(U)).elements())[:5]; extra = list((Counter(U) - exp).elements())[:5]
            run.violation(f'unbounded PRINCE-LING output differs from the terminals of the Prince grammar: missing {miss}, extra/duplicated {extra}', case,
                          observed={'n': len(U)}, expected={'n': sum(exp.values())}); return
        total = len(U)
        inside = set()
        for (p, start), nxt in zip(probs, probs[1:] + [(None, total)]):
            for x in range(start + 1, nxt[1]):
                inside.add(x)
        if total <= 400 or (tier == 'thorough' and total <= 1500):
            Ns = list(range(1, total + 3))
            run.ev('rulesets_with_every_N')
        else:
            b = {1, total - 1, total, total + 1}
            for p, start in probs:
                b.update({start - 1, start, start + 1})
            Ns = sorted(n for n in b | set(rng.sample(range(1, total), 30)) if n >= 1)
        for n in Ns:
            got, _ = run_prince(path, al, n)
            run.ev('size_runs')
            if got != U[:n]:
                run.violation(f'--size {n}: wrote {len(got)} words, expected the first {min(n, total)} of the unbounded list (total {total})', case,
                              observed=got[max(0, n - 2):n + 3], expected=U[max(0, n - 2):n + 1]); return
            run.case(h([case.get('spec', case.get('train')), al, n]) if n in inside else None)
        # ---- CLI: stdout vs -o file, and --size
        if case.get('force_cli') or rng.random() < (0.25 if tier == 'quick' else 0.1):
            fl = ['--all_lower'] if al else []
            # rule names may hold a path separator (Rules/team/2024 as `-r team/2024`): the CLI part then addresses the ruleset through such a name
            cli_name, nested_root = name, None
            if rng.random() < 0.3:
                import shutil
                nested_root = os.path.join(repo.scratch(), 'Rules', 'nest_' + name)
                shutil.copytree(path, os.path.join(nested_root, '2024'))
                cli_name = 'nest_' + name + '/2024'
                run.ev('cli_runs_with_a_nested_rule_name')
            # sizes: none, one of the tried N, the list length itself, a size beyond the list (the run ends because the grammar is exhausted, not because N is reached)
            n = rng.choice([None, rng.choice(Ns), total, total + rng.randint(1, 3), total + rng.randint(1, 3)])
            sz = [] if n is None else ['-s', str(n)]
            out, err, rc, to = cli.run_cli('prince_ling.py', ['-r', cli_name] + fl + sz, stdin_mode='devnull', max_out=8 << 20)
            ofile = os.path.join(path, 'prince_out.txt')
            # history: the output file already exists and holds a longer list (an earlier unbounded run into the same path), or some other text
            if rng.random() < 0.7:
                if rng.random() < 0.5:
                    cli.run_cli('prince_ling.py', ['-r', cli_name, '-o', ofile], stdin_mode='devnull', max_out=8 << 20)
                    run.ev('cli_runs')
                else:
                    open(ofile, 'wb').write(b'left over from an earlier run\n' * 400)
                run.ev('cli_runs_into_an_existing_file')
            out2, err2, rc2, to2 = cli.run_cli('prince_ling.py', ['-r', cli_name, '-o', ofile] + fl + sz, stdin_mode='devnull', max_out=8 << 20)
            run.ev('cli_runs', 2)
            if not (to or to2):
                want = ''.join(w + '\n' for w in (U if n is None else U[:n]))
                got_stdout = out.decode('utf-8', 'replace')
                got_file = open(ofile, 'rb').read().decode(disk.encoding, 'replace') if os.path.exists(ofile) else None
                if got_stdout != want:
                    run.violation(f'prince_ling.py {sz} stdout differs from the in-process list ({got_stdout.count(chr(10))} vs {want.count(chr(10))} lines)', case,
                                  observed=got_stdout[:150], expected=want[:150]); return
                # the file is written in the encoding of the ruleset: a word that encoding cannot represent (a capitalised letter may leave a legacy code page)
                # cannot be in it; everything else is, in the same order.  With --size the unrepresentable words may or may not count towards N
                def fits(w):
                    try:
                        w.encode(disk.encoding); return True
                    except UnicodeEncodeError:
                        return False
                full = U if n is None else U[:n]
                want_file = ''.join(w + '\n' for w in full if fits(w))
                alt_file = want_file if n is None else ''.join(w + '\n' for w in [w for w in U if fits(w)][:n])
                if got_file != want_file and got_file != alt_file:
                    run.violation(f'prince_ling.py -o FILE {sz}: the file differs from what is written to stdout', case, observed=(got_file or '')[:150], expected=want_file[:150]); return
                if want_file != want:
                    run.ev('cli_files_with_unrepresentable_words_left_out')
                if out2.strip():
                    run.violation('prince_ling.py -o FILE still wrote to stdout', case, observed=out2[:100].decode('utf-8', 'replace')); return
                run.ev('cli_file_equals_stdout')
        run.sample({'kind': case['kind'], 'all_lower': al, 'prince_grammar': disk.base_rows['Prince'][:6], 'words': total, 'head': U[:8], 'sizes_tried': len(Ns)})
    finally:
        repo.drop_rules(name)
        import shutil
        shutil.rmtree(os.path.join(repo.scratch(), 'Rules', 'nest_' + name), ignore_errors=True)

def slow_reader_case(rng):
    """A PRINCE list of some 200 kB (well above the 64 kB a pipe holds): the reader on the other end of the pipe is slower than PRINCE-LING."""
    n = rng.choice([16000, 20000, 24000])
    vals = ['%07d' % v for v in rng.sample(range(10 ** 7), n)]
    # mostly one word per pre-terminal (distinct probabilities), a few hundred tied ones at the end
    probs = sorted(((2.0 * (n - i)) / (n * (n + 1)) for i in range(n)), reverse=True)
    terms = {'D7': [[v, p_] for v, p_ in zip(vals, probs)], 'A2': [['ab', 0.6], ['cd', 0.4]], 'C2': [['LL', 1.0]]}
    spec = {'encoding': 'utf-8', 'uuid': 'slowrd-%08x' % rng.getrandbits(32), 'base': [['D7', 0.9], ['A2', 0.1]], 'prince': [['D7', 0.9], ['A2', 0.1]], 'terms': terms, 'omen': None}
    return {'kind': 'synthetic', 'spec': spec, 'slow_reader': True, 'size': rng.choice([None, n - 1234]), 'hseed': rng.getrandbits(32)}

def check_slow_reader(run, case):
    """prince_ling.py writing to a pipe that is not read until it is full (the cracker is busy), then drained: the list that arrives is the list written to
    -o FILE, all of it (with --size N: N words)."""
    from .. import cli
    name, path = gstream.materialise(case['spec'], 'c17s')
    ofile = os.path.join(path, 'prince_ref.txt')
    try:
        sz = [] if case['size'] is None else ['-s', str(case['size'])]
        cli.run_cli('prince_ling.py', ['-r', name, '-o', ofile] + sz, stdin_mode='devnull', max_out=8 << 20)
        if not os.path.exists(ofile):
            run.inconc('no reference file'); return
        ref = open(ofile, 'rb').read()
        if len(ref) < 100000:
            run.inconc('reference list too small to fill a pipe'); return
        out, err, rc, to, info = cli.run_cli_blocked('prince_ling.py', ['-r', name] + sz, [], settle=0.5)
        run.ev('cli_runs'); run.ev('slow_reader_runs')
        if to:
            run.inconc('cli watchdog'); return
        if info['blocked']:
            run.ev('writers_held_by_a_full_pipe')
        if out != ref:
            run.violation(f'prince_ling.py {sz} into a pipe whose reader is slow (the pipe was full for a while): {out.count(10)} words arrived, -o FILE holds {ref.count(10)}', case,
                          observed={'stderr_tail': err[-200:].decode('utf-8', 'replace'), 'bytes': len(out)}, expected={'bytes': len(ref)}); return
        # ... and a reader that never stops but takes the list in sips of 512 bytes, the tool writing through its ordinary block buffer
        out, err, rc, to = cli.run_cli_slow_reader('prince_ling.py', ['-r', name] + sz)
        run.ev('cli_runs'); run.ev('slow_reader_runs')
        if to:
            run.inconc('cli watchdog'); return
        if out != ref:
            run.violation(f'prince_ling.py {sz} into a pipe read in sips of 512 bytes (a slow consumer): {out.count(10)} words arrived, -o FILE holds {ref.count(10)}', case,
                          observed={'stderr_tail': err[-200:].decode('utf-8', 'replace'), 'bytes': len(out)}, expected={'bytes': len(ref)}); return
        run.ev('slow_reader_lists_complete')
        run.case(h(['slow-reader', case['spec']['uuid']]))
    finally:
        repo.drop_rules(name)

def run(run, rng):
    run.required_events = ['POP', 'WORD', 'size_runs', 'rulesets_with_every_N', 'cli_file_equals_stdout', 'cli_runs_into_an_existing_file']
    run.min_distinct = 10
    run.exhaustive = True
    run.extra['exhaustive_scope'] = 'every N in 1..total+2 for explored rulesets with total <= 400 words (thorough <= 1500)'
    run.assumptions = ['the unbounded in-process list is the reference for --size (it is itself compared with the reference language)', 'word lists <= 5000 words']
    if run.shard[0] == 0 or run.tier == 'thorough':
        for enc_ in (None, None, 'utf-8-sig'):
            run.ev('legacy_code_page_cases')
            run.guard(legacy_prince_case(rng, enc_), check_case, run.tier, seconds=300)
    if run.shard[0] == 1 % run.shard[1]:
        run.guard(slow_reader_case(rng), check_slow_reader, seconds=300)
    for i in range(N[run.tier]):
        run.guard(gen_case(rng), check_case, run.tier, seconds=300)

def replay(run, case):
    if case['case'].get('slow_reader'):
        check_slow_reader(run, case['case'])
    else:
        check_case(run, case['case'], 'thorough')
