"""C19 — equivalent encodings of a training list train the same grammar; junk lines are skipped, not leaked."""
import os, re, hashlib
from collections import Counter
from .. import repo, oracles, trained, trainlists, trainer, cli
from ..evidence import h

LEVEL = 'exploration'
RULE = ('logical lists (passwords with leading/trailing/inner spaces, non-ASCII, $HEX[ look-alikes, duplicates) rendered as plain / all-$HEX[] / random hex mix / '
        'count-prefixed (adjacent duplicates collapsed) / prefixed+hex, LF or CRLF line ends, with junk lines interleaved at the same positions in every rendering '
        '(blank, TAB, every C0 control incl. VT/FF/FS/GS/RS, U+0085/U+2028/U+2029, undecodable bytes, malformed $HEX[]); (a) the real read_password() sequence and '
        'counters equal an LF-only reference reader, (b) the three passes of one run_trainer see the same sequence, (c) rulesets trained from all renderings are '
        'byte-identical modulo uuid/filename, also with a --multiword pre-training word list (the same plain file for every rendering). non-trivial = list with a junk line or a password needing hex/space care; distinct by hash(list, junk, encoding)')
SHARDS = {'quick': 4, 'thorough': 16}
N = {'quick': 30, 'thorough': 900}

JUNK_CTRL = [chr(c) for c in range(0, 0x20) if c not in (0x0a, 0x0d)]

def gen_case(rng):
    enc = rng.choice(['utf-8', 'utf-8', 'utf-8', 'latin-1', 'cp1251', 'cp1252', 'ascii'])
    items = trainlists.gen_list(rng, enc, n_distinct=rng.randint(3, 9))
    extra = []
    pool = [' lead', 'trail ', '  both  ', 'in ner  space', '$HEX[', '$HEX[zz', 'x$HEX[41]', '$HEX[41]x', '$hex[41]', ' ', '   ', '5 five', '12', '3 ', 'a  b', '#1 pw', '$HEX[]x']
    for p in rng.sample(pool, rng.randint(2, 6)):
        extra.append((p, rng.choice([1, 1, 2, 3])))
    if enc in ('utf-8',):
        extra.append((rng.choice(['pässword', 'пароль 1', '😀 ok', 'naïve ']), rng.choice([1, 2])))
        extra.append((rng.choice(['€uro2024', '中文pass1', '…dots99', 'ﬁsh', '€']), rng.choice([1, 2])))          # first byte 0xE2-0xEF: hex text starting with E / e
    if enc in ('latin-1', 'cp1252'):
        extra.append((rng.choice(['été99', 'île1', 'àpass', 'ï']), rng.choice([1, 2])))                         # first byte 0xE0-0xEF
    if rng.random() < 0.2:
        # long but legal passwords (pass phrases, keys): their $HEX[] spelling is more than twice as long, their count-prefixed line a little longer
        extra.append((''.join(rng.choice('abcdefghij klmnop0123456789') for _ in range(rng.choice([130, 200, 252, 256, 300]))).strip() or 'x', rng.choice([1, 2])))
        if enc == 'utf-8':
            extra.append((''.join(rng.choice('\u0e01\u0e02\u0e04\u4e2d\u6587') for _ in range(rng.choice([45, 90]))) + '1', 1))
    items = [(p, k) for p, k in items + extra if trainlists.encodable(p, enc)]
    rng.shuffle(items)
    # junk lines: (kind, payload) placed after item index i
    junk = []
    for _ in range(rng.randint(0, 6)):
        kind = rng.choice(['blank', 'tab', 'ctrl', 'ctrl', 'ctrl', 'nel', 'ls', 'ps', 'badbytes', 'badhex', 'hextrunc', 'hexctrl', 'nocount', 'nocount'])
        ctrl = rng.choice(JUNK_CTRL)
        if kind == 'hexctrl' and rng.random() < 0.4:
            ctrl = rng.choice('\n\r')          # only a $HEX[] line can carry a line feed / carriage return inside (or at the end of) a password
        if kind == 'nocount' and rng.random() < 0.5:
            junk.append([0, kind, ctrl, rng.choice(['', '# counts from uniq -c', 'password', 'x 3', 'total 42 lines'])])      # before the first password of the file
            continue
        if kind == 'nocount':
            junk.append([rnd_pos(rng, len(items)), kind, ctrl, rng.choice(['', '# header', 'password', 'x 3'])])
            continue
        junk.append([rnd_pos(rng, len(items)), kind, ctrl, rng.choice(['ab%scd', '%stail', 'head%s', 'a%sb%sc', 'head%s', '%s'])])
    if rng.random() < 0.15:
        # a line that ends in the DOS end-of-file mark (CTRL-Z, 0x1A) - a control character like the others
        junk.append([rnd_pos(rng, len(items)), 'ctrl', '\x1a', rng.choice(['head%s', 'sunshine%s', '%s'])])
    case = {'items': [[p, k] for p, k in items], 'junk': junk, 'encoding': enc, 'eol': rng.choice(['\n', '\n', '\r\n']),
            'coverage': rng.choice([0.6, 1.0, 0.3]), 'ngram': rng.choice([2, 3, 4]), 'alphabet': 100, 'max_len': 21, 'hseed': rng.getrandbits(32)}
    r = rng.random()
    if r < 0.12:
        # a file that begins with a run of empty lines (an export with a blank header block): 20-30 of them before the first password
        case['junk'] = [[0, 'nocount', '\x00', '']] * rng.randint(20, 30) + case['junk']
    elif r < 0.16:
        # a long block of empty lines in the middle of the file (a concatenation of exports, a table with an empty column): a thousand and more in a row
        case['junk'] = case['junk'] + [[rnd_pos(rng, len(case['items'])), 'nocount', '\x00', '']] * rng.choice([1000, 1500, 3000])
    elif r < 0.22:
        # passwords that look like digests (people do use an MD5 as a password; lists of "uncrackable" plains are full of them): every line of the plain
        # rendering is 32 / 40 / 64 hex digits
        hx = lambda n: ''.join(rng.choice('0123456789abcdef') for _ in range(n))
        case['items'] = [[rng.choice([hx(32), hx(32).upper(), hx(40), hx(64)]), rng.choice([1, 1, 2, 3])] for _ in range(rng.randint(3, 8))]
        case['junk'] = [[rnd_pos(rng, len(case['items'])), 'nocount', '\x00', '']] * rng.randint(0, 2)          # nothing but the digests and, perhaps, an empty line
    # --multiword: a plain pre-training word list, the same file for every rendering; the list holds a few alpha runs that are split only because of it
    if rng.random() < 0.4 and not 0.16 <= r < 0.22:
        words = rng.sample(MW_WORDS, rng.randint(2, 5))
        for _ in range(rng.randint(1, 3)):
            a, b = rng.sample(words, 2)
            pw = rng.choice([a + b, a.capitalize() + b, a + b + str(rng.randint(0, 99)), '!' + a + b + a])
            case['items'].insert(rng.randrange(len(case['items']) + 1), [pw, rng.choice([1, 1, 2, 3])])
        case['multiword'] = words + rng.sample(['x', 'abc', '12 twelve', '7 seven', 'spam spam', '3'], rng.randint(0, 3))
    return case

MW_WORDS = ['horse', 'battery', 'staple', 'correct', 'river', 'stone', 'wall', 'king', 'blue', 'fish', 'tank', 'monkey', 'dragon', 'love', 'star']

def rnd_pos(rng, n):
    return rng.randrange(n + 1)

def pos_choice(pos, options):
    return options[pos % len(options)]

def junk_bytes(j, enc):
    pos, kind, ctrl, pat = j
    if kind in ('blank', 'nocount'):
        return b''
    if kind == 'tab':
        return 'ab\tcd'.encode(enc)
    if kind == 'ctrl':
        return (pat.replace('%s', ctrl)).encode(enc)
    if kind in ('nel', 'ls', 'ps'):
        ch = {'nel': '\u0085', 'ls': ' ', 'ps': ' '}[kind]
        try:
            return pat.replace('%s', ch).encode(enc)
        except UnicodeEncodeError:
            return b'\x0bzz'
    if kind == 'badbytes':
        return {'utf-8': b'caf\xe9\xff', 'ascii': b'caf\xe9', 'cp1252': b'ab\x81cd', 'cp1251': b'ab\x98cd', 'latin-1': b'\x0bxx'}[enc]
    if kind == 'badhex':
        return b'$HEX[4g]'
    if kind == 'hextrunc':
        # well-formed hex digits whose bytes end in the middle of a multi-byte character: undecodable as a whole, nothing of it is a password and
        # nothing of it belongs to the next line
        if enc == 'utf-8':
            return b'$HEX[' + (b'pass'.hex() + pos_choice(pos, ['c3', 'e282', 'f09f98', 'd0'])).encode() + b']'
        return b'$HEX[4g]'
    if kind == 'hexctrl':
        return b'$HEX[' + pat.replace('%s', ctrl).encode(enc).hex().encode() + b']'
    raise ValueError(kind)

def must_hex(pw):
    return bool(re.match(r'^\$HEX\[.*\]$', pw, re.S))

def render(case, mode, rng):
    """mode: plain | hex | mix | prefix | prefixhex.  Returns bytes.  Junk lines sit at the same logical positions in every mode."""
    enc, eol = case['encoding'], case['eol'].encode()
    prefix = mode.startswith('prefix')
    lines = []
    def pw_bytes(pw):
        hx = mode in ('hex', 'prefixhex') or (mode == 'mix' and rng.random() < 0.5) or must_hex(pw)
        if not hx:
            return pw.encode(enc)
        hd = pw.encode(enc).hex()
        r = rng.random()          # hex digits in either case (bytes.fromhex takes both)
        hd = hd.upper() if r < 0.35 else (''.join(c.upper() if rng.random() < 0.5 else c for c in hd) if r < 0.5 else hd)
        return b'$HEX[' + hd.encode() + b']'
    junk_at = {}
    for j in case['junk']:
        junk_at.setdefault(j[0], []).append(j)
    for i, (pw, k) in enumerate(case['items'] + [[None, 0]]):
        for j in junk_at.get(i, []):
            jb = junk_bytes(j, enc)
            if j[1] == 'nocount':
                # a line without a count in a count-prefixed list (a header, a stray plain line, nothing at all): skipped; in the plain renderings its place
                # is taken by a blank line, which is skipped as well
                lines.append(j[3].encode(enc) if prefix else b'')
                continue
            lines.append((rng.choice([b'1 ', b'  1 ', b'2 ']) if False else b'1 ') + jb if prefix else jb)
        if pw is None:
            break
        if prefix:
            lines.append(rng.choice([b'', b' ', b'   ']) + str(k).encode() + b' ' + pw_bytes(pw))
        else:
            lines.extend([pw_bytes(pw)] * k)
    return b''.join(l + eol for l in lines)

def digest(path, skip=(b'uuid', b'filename')):
    out = {}
    for root, dirs, files in os.walk(path):
        for f in sorted(files):
            b = open(os.path.join(root, f), 'rb').read()
            if f == 'config.ini':
                b = b'\n'.join(l for l in b.split(b'\n') if not l.startswith(tuple(skip)))
            out[os.path.relpath(os.path.join(root, f), path)] = hashlib.sha256(b).hexdigest()
    return out

def check_case(run, case):
    import random
    rng = random.Random(case['hseed'])
    repo.scratch()
    import lib_trainer.trainer_file_input as tfi
    enc = case['encoding']
    logical = [p for p, k in case['items'] for _ in range(k) if oracles.valid_password(p)]
    digests = {}
    plain_noerr = None
    mw_notes = {}
    nontriv = bool(case['junk']) or any(p != p.strip() or must_hex(p) for p, k in case['items'])
    for mode in ['plain', 'hex', 'mix', 'prefix', 'prefixhex']:
        data = render(case, mode, rng)
        prefix = mode.startswith('prefix')
        exp, npw, nerr = oracles.reference_reader(data, enc, prefix)
        # the renderings are equivalent by construction *according to the reference reader*; if not, the generator is wrong, not the tool
        if exp != logical:
            raise AssertionError(f'generator bug: rendering {mode} means {exp[:5]} to the reference reader, logical list {logical[:5]}')
        # (a) the real reader, directly
        name, path = repo.new_rules_dir('c19')
        try:
            tf = os.path.join(path, 'in.txt')
            open(tf, 'wb').write(data)
            fi = tfi.TrainerFileInput(tf, enc, prefix)
            try:
                got = list(fi.read_password())
            except Exception as e:
                run.violation(f'read_password() raised {type(e).__name__}: {e!s:.150} on rendering {mode}', case, observed=data[:200].decode('latin-1')); return
            run.ev('reader_runs'); run.ev('lines_read', len(got))
            if got != exp:
                i = next((i for i, (a, b) in enumerate(zip(got, exp)) if a != b), min(len(got), len(exp)))
                run.violation(f'rendering {mode}: read_password() yields {len(got)} passwords, reference reader {len(exp)}; first difference at {i}', case,
                              observed=got[max(0, i - 1):i + 3], expected=exp[max(0, i - 1):i + 3]); return
            if fi.num_passwords != npw or fi.num_encoding_errors != nerr:
                run.violation(f'rendering {mode}: counters num_passwords={fi.num_passwords} num_encoding_errors={fi.num_encoding_errors}, reference {npw}/{nerr}', case); return
            os.remove(tf)
            # (b) + (c) full training
            mwdata = ''.join(w + case['eol'] for w in case['multiword']).encode(enc) if case.get('multiword') else None
            res = trainer.train(data, path, multiword_data=mwdata, encoding=enc, coverage=case['coverage'], ngram=case['ngram'], alphabet_size=case['alphabet'],
                                max_len=case['max_len'], prefixcount=prefix)
            if not res.ok:
                run.ev('trainings_not_completed')
                if res.exc is not None and not isinstance(res.exc, ZeroDivisionError):
                    run.violation(f'training aborted with {res.exc!r} on rendering {mode}', case, observed=res.stdout[-300:]); return
                digests[mode] = None
                continue
            run.ev('trainings')
            seqs = [p['yielded'] for p in res.passes]
            if len(seqs) != 3 or not (seqs[0] == seqs[1] == seqs[2] == exp):
                run.violation(f'rendering {mode}: the three training passes did not see the same password sequence (lengths {[len(s) for s in seqs]}, expected {len(exp)})', case); return
            if len({(p['num_passwords'], p['num_encoding_errors']) for p in res.passes}) != 1:
                run.violation(f'rendering {mode}: the three passes disagree on the counters', case, observed=[(p['num_passwords'], p['num_encoding_errors']) for p in res.passes]); return
            run.ev('three_pass_comparisons')
            if mwdata is not None:
                # diagnostic only (the deciding oracle is the comparison of the trained rulesets below): how was the pre-training word list read?
                mexp = oracles.reference_reader(mwdata, enc, False)[0]
                if res.multiword_pass is None or res.multiword_pass['yielded'] != mexp:
                    mw_notes[mode] = f'--multiword list read as {None if res.multiword_pass is None else res.multiword_pass["yielded"][:6]} under rendering {mode}, a plain reader gives {mexp[:6]}'
                run.ev('multiword_trainings')
            # nothing from a junk line may leak into the ruleset
            leaked = [pw for pw, _ in res.segmented if pw not in set(logical)]
            if leaked:
                run.violation(f'rendering {mode}: the trainer parsed strings that are not passwords of the list', case, observed=leaked[:5]); return
            digests[mode] = digest(path)
            if mode == 'plain':
                plain_noerr = digest(path, skip=(b'uuid', b'filename', b'number_of_encoding_errors'))
        finally:
            repo.drop_rules(name)
    # junk lines are skipped: the list without them trains the same ruleset (config.ini counts the undecodable lines, nothing else may differ) - and a list
    # that trains without its junk lines trains with them
    if case['junk']:
        name, path = repo.new_rules_dir('c19')
        try:
            clean = render(dict(case, junk=[]), 'plain', rng)
            mwdata = ''.join(w + case['eol'] for w in case['multiword']).encode(enc) if case.get('multiword') else None
            res = trainer.train(clean, path, multiword_data=mwdata, encoding=enc, coverage=case['coverage'], ngram=case['ngram'], alphabet_size=case['alphabet'],
                                max_len=case['max_len'], prefixcount=False)
            run.ev('junk_free_trainings')
            if res.ok and digests.get('plain') is None:
                run.violation('the list trains without its junk lines (blank / control-character / undecodable lines) but the trainer refused / did not complete it with them', case,
                              observed={'plain_head': render(case, 'plain', rng)[:120].decode('latin-1')}); return
            if res.ok:
                d = digest(path, skip=(b'uuid', b'filename', b'number_of_encoding_errors'))
                if d != plain_noerr:
                    diff = sorted(k for k in set(d) | set(plain_noerr) if d.get(k) != plain_noerr.get(k))
                    run.violation(f'the ruleset trained from the list with its junk lines differs from the one trained without them in {diff[:5]}', case, observed=diff); return
                run.ev('junk_free_rulesets_identical')
        finally:
            repo.drop_rules(name)
    # the real CLI with --prefixcount on the prefixed rendering must give the same tree (argument plumbing of -e / --prefixcount)
    if digests.get('prefixhex') is not None and rng.random() < (0.5 if case.get('multiword') else 0.25):
        sdir = repo.scratch()
        tf = os.path.join(sdir, f'c19cli_{os.getpid()}.txt')
        nm = f'c19cli_{os.getpid()}'
        open(tf, 'wb').write(render(case, 'prefixhex', rng))
        try:
            extra = []
            if case.get('multiword'):
                open(tf + '.mw', 'wb').write(''.join(w + case['eol'] for w in case['multiword']).encode(enc))
                extra = ['--multiword', tf + '.mw']
            # half of the CLI trainings run with a standard output that cannot represent the passwords (the trainer prints progress and statistics there)
            oenc = rng.choice(['utf-8', 'ascii', 'ascii', 'latin-1'])
            out, err, rc, to = cli.run_cli('trainer.py', ['-r', nm, '-t', tf, '-e', enc, '--prefixcount', '-c', str(case['coverage']), '-n', str(case['ngram']),
                                                           '-a', str(case['alphabet'])] + extra, stdin_mode='devnull', env={'PYTHONIOENCODING': oenc})
            run.ev('trainer_cli_runs')
            if oenc != 'utf-8':
                run.ev('trainer_cli_runs_with_a_narrow_stdout')
                if os.path.exists(os.path.join(sdir, 'Rules', nm, 'Grammar', 'grammar.txt')):
                    run.ev('narrow_stdout_trainings_completed')
            p = os.path.join(sdir, 'Rules', nm)
            if not to and os.path.exists(os.path.join(p, 'Grammar', 'grammar.txt')):
                d = digest(p)
                if d != digests['prefixhex']:
                    diff = sorted(k for k in set(d) | set(digests['prefixhex']) if d.get(k) != digests['prefixhex'].get(k))
                    run.violation(f'trainer.py --prefixcount gives a different ruleset than run_trainer with prefixcount=True on the same file: {diff[:5]}', case, observed=diff); return
                run.ev('cli_prefixcount_trainings_identical')
        finally:
            os.remove(tf)
            if os.path.exists(tf + '.mw'):
                os.remove(tf + '.mw')
            import shutil
            shutil.rmtree(os.path.join(sdir, 'Rules', nm), ignore_errors=True)
    live = {m: d for m, d in digests.items() if d is not None}
    if live and len(live) < len(digests):
        dead = sorted(m for m, d in digests.items() if d is None)
        run.violation(f'the trainer refused / did not complete the training for rendering(s) {dead} although it trained the equivalent rendering(s) {sorted(live)} of the same list', case,
                      observed={'plain_head': render(case, 'plain', rng)[:120].decode('latin-1')}); return
    if len(live) >= 2:
        ref_mode = next(iter(live))
        for m, d in live.items():
            if d != live[ref_mode]:
                diff = sorted(k for k in set(d) | set(live[ref_mode]) if d.get(k) != live[ref_mode].get(k))
                run.violation(f'rulesets trained from renderings {ref_mode} and {m} differ in {diff[:5]}' + (' (' + '; '.join(mw_notes.values()) + ')' if mw_notes else ''), case, observed=diff); return
        run.ev('rendering_sets_identical')
    run.case(h([case['items'], case['junk'], enc]) if nontriv else None)
    for j in case['junk']:
        run.add_to_set('junk_kinds', j[1] + (':%02x' % ord(j[2]) if j[1] in ('ctrl', 'hexctrl') else ''))
    run.sample({'encoding': enc, 'eol': repr(case['eol']), 'items': case['items'][:5], 'junk': case['junk'][:3],
                'plain_rendering_head': render(case, 'plain', rng)[:80].decode('latin-1'), 'prefix_rendering_head': render(case, 'prefixhex', rng)[:80].decode('latin-1')})

def run(run, rng):
    run.required_events = ['reader_runs', 'trainings', 'three_pass_comparisons', 'rendering_sets_identical', 'multiword_trainings']
    run.min_distinct = 10
    run.assumptions = ['a lone CR inside a line (legacy Mac line end) is not generated: the codec reader treats it as a line end, an LF-only reader would not',
                       'count prefixes are plain ASCII integers', 'number_of_encoding_errors is part of the compared config.ini, so junk lines are rendered at the same positions in every rendering',
                       'a malformed $HEX[..] line is counted as an encoding error and skipped (the reference reader does the same)']
    for i in range(N[run.tier]):
        run.guard(gen_case(rng), check_case, seconds=300)

def replay(run, case):
    check_case(run, case['case'])
