"""C11 — trainer, scorer and guesser agree on every string's OMEN level."""
import os, io, itertools, contextlib
from collections import Counter
from .. import repo, oracles, trained, trainer, trainlists
from ..evidence import h

LEVEL = 'exploration'
RULE = ('random training lists over small alphabets (2-4 symbols incl. non-ASCII, so the generator can be enumerated), ngram 2-4, max_len 5-8, encodings utf-8 / latin-1 / '
        'cp1251, single-length, length==ngram dominated and count-dominated lists (rare transitions taken several times: transition levels summing to > 10); candidates = training passwords + every string the real MarkovCracker emits at any level + all strings '
        'of length 1..max_len+1 over alphabet+1 foreign symbol (capped); for each candidate find_omen_level(trainer state) == OmenScorer.parse == level at which the '
        'generator emitted it (-1 if never) == reference level from the files; omen_pws_per_level.txt == tally of the trainer levels. '
        'non-trivial = candidate with level >= 0 reachable at a level holding >= 2 strings; distinct by hash(list, options)')
SHARDS = {'quick': 4, 'thorough': 16}
N = {'quick': 25, 'thorough': 700}

def gen_case(rng):
    enc = rng.choice(['utf-8', 'utf-8', 'latin-1', 'cp1251', 'utf-8-sig'])      # utf-8-sig: what the trainer auto-detects for a list saved as "UTF-8 with BOM"
    # also characters a password may contain although they are not "printable": no-break space, DEL, a C1 control, soft hyphen, ideographic space,
    # zero-width joiner, a private-use code point
    alph = {'utf-8': ['ab', 'abc', 'a1', 'xyя', 'aé😀'[:2], 'abcd', 'a\xa0b', 'a\x7f', 'ab\u3000', 'a\u200d1', 'a\ue000', 'a\x80', 'a\ufeffb', '\ufeffa', 'a"b', '"a', 'a,b', "a'", 'ae\u0301', 'e\u0301', 'a\u030ab'], 'latin-1': ['ab', 'aé', 'abñ', 'a\xa0', 'a\xad1'],
            'cp1251': ['ab', 'яб', 'aя1', 'a\xa0']}[enc if enc != 'utf-8-sig' else 'utf-8']
    alphabet = rng.choice(alph)
    ngram = rng.choice([2, 2, 3, 3, 4])
    max_len = rng.randint(max(ngram, 5), 8 if len(alphabet) <= 3 else 7)
    if rng.random() < 0.12:
        alphabet, max_len = (rng.choice(['a', 'я']) if enc in ('utf-8', 'cp1251') else 'a'), 21          # the default maximum length, enumerable because the alphabet has one symbol
    shape = rng.choice(['mixed', 'mixed', 'single_length', 'len_eq_ngram', 'skewed'])
    items = []
    for _ in range(rng.randint(3, 14)):
        if shape == 'single_length':
            L = max_len - 1
        elif shape == 'len_eq_ngram':
            L = ngram if rng.random() < 0.8 else rng.randint(ngram, max_len)
        else:
            L = rng.randint(1, max_len + 1)
        if shape == 'skewed':
            pw = ''.join(rng.choice(alphabet[0] * 5 + alphabet) for _ in range(L))
        else:
            pw = ''.join(rng.choice(alphabet) for _ in range(L))
        items.append([pw, rng.choice([1, 1, 2, 5])])
    if len(alphabet) >= 2 and rng.random() < 0.3:
        # dominated lists: one or two heavily repeated passwords make every other transition rare (level 3-9 each), and a few single "zig-zag" passwords
        # take such a transition several times, so the transition levels alone add up to more than the single-transition maximum of 10
        a, b = alphabet[0], alphabet[1]
        L = rng.randint(min(max(ngram + 2, 5), max_len), max_len)
        items = [[a * L, rng.choice([60, 120, 250])]]
        if rng.random() < 0.5:
            items.append([b * rng.randint(ngram, L), rng.choice([20, 50])])
        for _ in range(rng.randint(1, 3)):
            z = rng.choice([(a + b) * L, (a * (ngram - 1) + b) * L, (a + b + b) * L, ''.join(rng.choice(a + b) for _ in range(L))])[:rng.randint(ngram + 1, L)]
            items.append([z, rng.choice([1, 1, 2])])
        shape = 'dominated'
    if rng.random() < 0.3:
        items.append([alphabet[0] + 'Z' + alphabet[-1] * 2, 1])     # a character that may fall outside a tiny alphabet
    return {'items': items, 'encoding': enc, 'ngram': ngram, 'max_len': max_len, 'alphabet': rng.choice([100, 100, 2, 3]), 'coverage': 0.6,
            'symbols': alphabet, 'hseed': rng.getrandbits(32), 'prefixcount': rng.random() < 0.3}      # the same list as `uniq -c` output, trained with --prefixcount

def guesser_levels(path, top, cap=60000):
    """level at which the real generator emits each string (first level), and multiplicities."""
    repo.scratch()
    from lib_guesser.omen.input_file_io import load_rules
    from lib_guesser.omen.markov_cracker import MarkovCracker
    from lib_guesser.omen.optimizer import Optimizer
    g = {}
    with contextlib.redirect_stderr(io.StringIO()), contextlib.redirect_stdout(io.StringIO()):
        if not load_rules(os.path.join(path, 'Omen'), g):
            raise RuntimeError('guesser OMEN loader failed')
    opt = Optimizer(max_length=4)
    where = {}
    per_level = {}
    total = 0
    for L in range(0, top + 1):
        mc = MarkovCracker(g, L, opt)
        out = []
        while True:
            s = mc.next_guess()
            if s is None:
                break
            out.append(s)
            total += 1
            if total > cap:
                raise OverflowError
        per_level[L] = out
        for s in out:
            where.setdefault(s, []).append(L)
    return where, per_level

def check_case(run, case, want_keyspace=False):
    name, path, res = trained.train_case(case, 'c11')
    try:
        if not res.ok or res.omen_trainer is None:
            run.ev('trainings_not_completed'); run.inconc('training did not complete'); return None
        repo.scratch()
        from lib_trainer.omen.evaluate_password import find_omen_level
        from lib_scorer.omen_scorer import OmenScorer
        model = oracles.OmenModel(os.path.join(path, 'Omen'))
        try:
            ref = model.all_levels(10 * (model.max_len + 2), cap=60000)
        except OverflowError:
            run.inconc('model above enumeration cap'); return None
        top = max(ref) if ref else 0
        try:
            where, per_level = guesser_levels(path, top + 2)
        except OverflowError:
            run.inconc('generator above enumeration cap'); return None
        with contextlib.redirect_stderr(io.StringIO()), contextlib.redirect_stdout(io.StringIO()):
            scorer = OmenScorer(path, case['encoding'], 9)
        cands = set(p for p, k in case['items']) | set(where)
        syms = case['symbols'] + 'Q'
        budget = 4000
        for L in range(1, model.max_len + 2):
            for t in itertools.product(syms, repeat=L):
                cands.add(''.join(t))
                budget -= 1
                if budget <= 0:
                    break
            if budget <= 0:
                break
        cands.add(''); cands.add(case['symbols'][0] * (model.max_len + 5))
        for s in sorted(cands):
            lt = find_omen_level(res.omen_trainer, s)
            ls = scorer.parse(s)
            lg = where.get(s, [-1])
            lr = model.level(s)
            run.ev('level_comparisons')
            if len(lg) != 1:
                run.violation(f'generator emitted {s!r} at several levels / several times: {lg}', case); return None
            if not (lt == ls == lg[0] == lr):
                run.violation(f'OMEN level of {s!r}: trainer {lt}, scorer {ls}, generator {lg[0]}, reference (from the files) {lr}', case,
                              observed={'trainer': lt, 'scorer': ls, 'generator': lg[0], 'reference': lr}); return None
            if lr >= 0 and len(ref.get(lr, [])) >= 2:
                run.ev('nontrivial_candidates')
        # per-level counts the trainer saved == tally of the trainer's own levels over the training passwords
        rows = oracles.read_rows(os.path.join(path, 'Omen', 'omen_pws_per_level.txt'), case['encoding'])
        saved = {int(v): int(p) for v, p in rows}
        mine = Counter(find_omen_level(res.omen_trainer, pw) for pw in res.passes[2]['yielded'])
        if saved != dict(mine):
            run.violation('omen_pws_per_level.txt differs from the tally of the training passwords\' levels', case, observed=saved, expected=dict(mine)); return None
        run.ev('per_level_files_compared')
        run.case(h([case['items'], case['ngram'], case['max_len'], case['encoding']]) if any(len(v) >= 2 for v in ref.values()) else None)
        run.sample({'items': case['items'][:6], 'ngram': case['ngram'], 'max_len': case['max_len'], 'encoding': case['encoding'], 'candidates': len(cands),
                    'strings_per_level': {L: len(v) for L, v in sorted(ref.items())[:8]}, 'pws_per_level': saved})
        return (path, res, model, per_level, ref) if want_keyspace else True
    finally:
        if not want_keyspace:
            repo.drop_rules(name)

def check_entrypoint(run, case):
    """The level "the scorer reports" is what its entry point PCFGPasswordScorer.parse returns (4th field), for every kind of string - also those it classifies
    as e-mail / website, which the trainer's third pass and the Markov generator treat like any other string.  Ordinary lists, alphabet 100, max_len 21:
    the generator is not enumerated here; the anchor is the level computed from the files."""
    from . import c13
    name, path, res = trained.train_case(case, 'c11e')
    try:
        if not res.ok or res.omen_trainer is None:
            run.ev('trainings_not_completed'); run.inconc('training did not complete'); return
        repo.scratch()
        from lib_trainer.omen.evaluate_password import find_omen_level
        model = oracles.OmenModel(os.path.join(path, 'Omen'))
        sc = c13.load_scorer(path)
        accepted = list(dict.fromkeys(res.passes[0]['yielded']))
        words = [w for w in accepted if w.isalpha()][:4] or ['love']
        cands = accepted + trainlists.EMAILS + trainlists.SITES + [w + t for w in words for t in ('.com', '.net', '.org', '@gmail.com')] + ['www.' + w + '.com' for w in words]
        cands += [p[:-1] for p in accepted[:10] if len(p) > 2] + [p + '1' for p in accepted[:10]]
        n_ew = 0
        for s_ in dict.fromkeys(cands):
            if not oracles.valid_password(s_) or not trainlists.encodable(s_, case['encoding']):
                continue
            lt = find_omen_level(res.omen_trainer, s_)
            out = sc.parse(s_)
            lp, ls, lr = out[3], sc.omen.parse(s_), model.level(s_)
            run.ev('entrypoint_level_comparisons')
            if out[1] in ('e', 'w'):
                n_ew += 1
                if lr >= 0:
                    run.ev('email_website_strings_with_a_level')
            if not (lt == lp == ls == lr):
                run.violation(f'OMEN level of {s_!r} (scorer category {out[1]!r}): trainer {lt}, scorer entry point {lp}, OmenScorer {ls}, reference (from the files) {lr}', case,
                              observed={'trainer': lt, 'PCFGPasswordScorer.parse': lp, 'OmenScorer.parse': ls, 'reference': lr}); return
        run.ev('entrypoint_rulesets')
        run.case(h(['entry', case['items'], case['ngram'], case['encoding']]) if n_ew else None)
    finally:
        repo.drop_rules(name)

def check_cli_trained(run, case):
    """The same agreement for a ruleset trained through the real command line (trainer.py): the per-level counts it saves are the tally of the levels the
    files give the accepted passwords, and the scorer reports those levels.  (Option defaults live in the command-line front end.)"""
    from .. import cli
    from . import c13
    sdir = repo.scratch()
    tf = os.path.join(sdir, f'c11cli_{os.getpid()}.txt')
    nm = f'c11cli_{os.getpid()}'
    path = os.path.join(sdir, 'Rules', nm)
    items = [(p, k) for p, k in case['items']]
    open(tf, 'wb').write(trainlists.render_plain(items, case['encoding']))
    try:
        out, err, rc, to = cli.run_cli('trainer.py', ['-r', nm, '-t', tf, '-e', case['encoding'], '-c', str(case['coverage']), '-n', str(case['ngram']), '-a', str(case['alphabet'])],
                                       stdin_mode='devnull', timeout=120)
        run.ev('trainer_cli_runs')
        if to or not os.path.exists(os.path.join(path, 'Omen', 'omen_pws_per_level.txt')):
            run.ev('trainings_not_completed'); run.inconc('training did not complete'); return
        model = oracles.OmenModel(os.path.join(path, 'Omen'))
        accepted = [p for p, k in items for _ in range(k) if oracles.valid_password(p)]
        saved = {int(v): int(p_) for v, p_ in oracles.read_rows(os.path.join(path, 'Omen', 'omen_pws_per_level.txt'), case['encoding'])}
        mine = Counter(model.level(pw) for pw in accepted)
        if saved != dict(mine):
            run.violation(f'trainer.py (ngram {case["ngram"]}): omen_pws_per_level.txt {dict(sorted(saved.items()))} differs from the levels the written model gives the training '
                          f'passwords {dict(sorted(mine.items()))}', case, observed=saved, expected=dict(mine)); return
        sc = c13.load_scorer(path)
        for pw in dict.fromkeys(accepted):
            if sc.omen.parse(pw) != model.level(pw):
                run.violation(f'CLI-trained ruleset: scorer level of {pw!r} is {sc.omen.parse(pw)}, the files give {model.level(pw)}', case); return
        run.ev('cli_trained_rulesets_compared')
        run.case(h(['clitrained', case['items'], case['ngram']]))
    finally:
        os.remove(tf)
        import shutil
        shutil.rmtree(path, ignore_errors=True)

def gen_entry_case(rng):
    case = trained.gen_train_case(rng, encodings=['utf-8', 'utf-8', 'latin-1'], coverages=(0.6,), max_len_choices=(21,))
    case['alphabet'], case['coverage'] = 100, 0.6
    case['items'] = case['items'] + [[e, rng.choice([1, 2, 3])] for e in rng.sample(trainlists.EMAILS + trainlists.SITES + ['master.com', 'love.net', 'bob@love.org'], 4)]
    case['entry'] = True
    return case

def run(run, rng):
    run.required_events = ['level_comparisons', 'per_level_files_compared', 'nontrivial_candidates', 'entrypoint_level_comparisons', 'email_website_strings_with_a_level', 'cli_trained_rulesets_compared']
    run.min_distinct = 8
    run.assumptions = ['max_len 5-8 is a harness bound handed to run_trainer (same code path as the default 21) so that the generator side can be enumerated',
                       'models above 60000 strings are not decided']
    for i in range(N[run.tier]):
        run.guard(gen_case(rng), check_case, seconds=240)
    for i in range(max(3, N[run.tier] // 6)):
        run.guard(gen_entry_case(rng), check_entrypoint, seconds=240)
    for i in range(max(4, N[run.tier] // 5)):
        c = gen_case(rng)
        c['prefixcount'] = False
        c['cli'] = True
        run.guard(c, check_cli_trained, seconds=240)

def replay(run, case):
    if case['case'].get('cli'):
        check_cli_trained(run, case['case'])
    elif case['case'].get('entry'):
        check_entrypoint(run, case['case'])
    else:
        check_case(run, case['case'])
