"""C12 — the guess stream does not depend on thread timing or on standard input (schedule enumeration + stdin conditions)."""
import os
from collections import Counter
from .. import repo, rulesets, oracles, gstream, session, sched, cli
from ..evidence import timebox, CaseTimeout, h
from . import c15

LEVEL = 'fault_enumeration'
RULE = ('(i) in-process sessions of the real main() under a sys.monitoring LINE-event scheduler: rulesets with >=6 loop iterations incl. consecutive '
        'Markov pre-terminals; at generation-thread yield point p the real keypress thread receives ENTER / h / q / EOF / an input that makes its '
        'handler raise, optionally parked after n of its own steps or right after should_exit=True and released at yield point p2; sequences of up to '
        '3 requests; (ii) the real CLI as a subprocess with stdin = pty / open pipe / pipe at EOF / "\\n"+EOF / requests+EOF / /dev/null / closed fd. '
        'Oracle: without q the stream equals the uninterrupted one exactly; with q it is a prefix ending at a pre-terminal boundary or between two '
        'Markov guesses, saved before exit, and the resumed run supplies exactly the rest. non-trivial = schedule whose delivery happened while '
        'guesses were being generated; distinct by hash of the merged (thread,function,line) trace')
SHARDS = {'quick': 4, 'thorough': 16}
N = {'quick': 3, 'thorough': 8}
POINTS = {'quick': 200, 'thorough': 400}

def gen_case(rng):
    case = c15.gen_case(rng)
    case['big'] = False
    return case

def big_spec(rng):
    """>= 4000 guesses, so that a premature stop is unmistakable at the process boundary."""
    def rows(vals, ng):
        return rulesets.rows_grouped(rng, vals, ng, 'random')
    d2 = ['%02d' % i for i in rng.sample(range(100), 40)]
    a3 = rng.sample(['cat', 'dog', 'abc', 'fox', 'sun', 'pie', 'owl', 'кот', 'été', 'bee', 'ant', 'elk'], 10)
    terms = {'D2': rows(d2, 8), 'A3': rows(a3, 5), 'C3': rows(['LLL', 'ULL', 'UUU'], 2), 'O1': rows(list('!@#$%.'), 3)}
    base = [['A3D2', 0.4], ['D2O1', 0.35], ['A3O1D2', 0.25]]
    rng.shuffle(base)
    base.sort(key=lambda x: -x[1])
    return {'encoding': 'utf-8', 'uuid': 'big-%08x' % rng.getrandbits(32), 'base': base, 'prince': [], 'terms': terms, 'omen': None}

def huge_spec(rng):
    """> 1 MB of guesses in pre-terminals of at most a few KB: the stream is far longer than a pipe can hold, so a generator whose stdout is not being read
    blocks inside a write at a well-defined point, long before the end."""
    def rows(vals, ng):
        return rulesets.rows_grouped(rng, vals, ng, 'random')
    d3 = ['%03d' % i for i in rng.sample(range(1000), 800)]
    a3 = rng.sample(['cat', 'dog', 'abc', 'fox', 'sun', 'pie', 'owl', 'bee', 'ant', 'elk', 'yak', 'emu'], 10)
    terms = {'D3': rows(d3, 40), 'A3': rows(a3, 5), 'C3': rows(['LLL', 'ULL', 'UUU'], 2), 'O1': rows(list('!@#$%.'), 3)}
    base = [['A3D3', 0.4], ['D3O1', 0.35], ['A3O1D3', 0.25]]
    rng.shuffle(base)
    base.sort(key=lambda x: -x[1])
    return {'encoding': 'utf-8', 'uuid': 'huge-%08x' % rng.getrandbits(32), 'base': base, 'prince': [], 'terms': terms, 'omen': None}

# requests written to the stdin pipe while the generator is blocked on its own output; every entry ends in an explicit quit
BLOCKED_REQUESTS = [[b'q\n'], [b'\nq\n'], [b'h\nq\n'], [b'\n\n\nq\n'], [b'\n', b'q\n'], [b'h\n\nq\n'], [b'q\nq\n'], [b'\r\nq\n'][:0] or [b'\n', b'h\n', b'q\n']]

def check_blocked_quit(run, case, tier='quick'):
    """Real process, stdout not read until the requests have been delivered: the moment of the quit is fixed by back-pressure, not by timing.  The output must be a
    line-aligned prefix of the uninterrupted stream that ends within the pre-terminal being written when the generator blocked (+ one more), and --load supplies the rest."""
    import random
    rng = random.Random(case['hseed'])
    name, path = gstream.materialise(case['spec'], 'c12h')
    sn = session.new_session_name('c12h')
    try:
        pts = []
        U = session.run_main(['-r', name, '-s', sn], max_guesses=2000000)
        ref = ('\n'.join(U.guesses) + '\n').encode('utf-8') if U.guesses else b''
        if len(ref) < 600000:
            run.inconc('huge ruleset too small'); return
        # size of the largest pre-terminal in bytes, from the recorded POP/GUESS events
        starts = [p_['first_guess'] for p_ in U.pops] + [len(U.guesses)]
        sizes = [sum(len(g.encode('utf-8')) + 1 for g in U.guesses[a:b]) for a, b in zip(starts, starts[1:])] or [0]
        maxpt = max(sizes)
        reqs = BLOCKED_REQUESTS if tier == 'thorough' else rng.sample(BLOCKED_REQUESTS, 3)
        for i, chunks in enumerate(reqs):
            verdicts = []
            for attempt, settle in enumerate([1.0, 3.0, 8.0]):
                s2 = f'{sn}b{i}_{attempt}'
                out, err, rc, to, info = cli.run_cli_blocked('pcfg_guesser.py', ['-r', name, '-s', s2], chunks, settle=settle)
                run.ev('cli_runs'); run.ev('blocked_cli_runs')
                if to or not info['blocked'] or not info['stdin_consumed']:
                    verdicts.append(('inconclusive', f'watchdog/blocked={info["blocked"]}/consumed={info["stdin_consumed"]}')); break
                if not ref.startswith(out) or (out and not out.endswith(b'\n')):
                    run.violation(f'requests {chunks} written while the generator was blocked on its output: stdout is not a line-aligned prefix of the uninterrupted stream',
                                  case, observed=out[-120:].decode('utf-8', 'replace')); return
                bound = info['fill'] + 2 * 8192 + 2 * maxpt + 4096
                if len(out) > bound:
                    # a slow helper thread is not a defect: ask again with a longer settling time; a lost request fails every time
                    verdicts.append(('late', f'{len(out)} bytes written, the generator was blocked at about {info["fill"]} (largest pre-terminal {maxpt} bytes, whole stream {len(ref)}), settle {settle}s'))
                    continue
                verdicts.append(('ok', len(out)))
                out2, err2, rc2, to2 = cli.run_cli('pcfg_guesser.py', ['-r', name, '-s', s2, '--load'], stdin_mode='open')
                run.ev('cli_runs'); run.ev('cli_resumes')
                if not to2:
                    lost = Counter(ref.split(b'\n')) - (Counter(out.split(b'\n')) + Counter(out2.split(b'\n')))
                    if lost:
                        run.violation(f'requests {chunks} while blocked + --load lost {sum(lost.values())} guesses', case, observed=[x.decode('utf-8', 'replace') for x in list(lost)[:5]]); return
                break
            kinds = [v[0] for v in verdicts]
            if kinds and all(k == 'late' for k in kinds) and len(kinds) == 3:
                run.violation(f'an explicit quit written to stdin as {chunks} while the generator was blocked on its output was not honoured: ' + verdicts[-1][1], case,
                              observed=[v[1] for v in verdicts]); return
            if 'inconclusive' in kinds:
                run.inconc('blocked-quit: ' + verdicts[-1][1]); continue
            run.ev('blocked_quits_honoured')
            run.add_to_set('blocked_request_shapes', repr(chunks))
            run.case(h(['blocked', case['spec']['uuid'], repr(chunks)]))
        # the same on a terminal: status / help requests typed one at a time while the generator is held - nothing but the stream may come out, all of it
        out, err, rc, to, info = cli.run_cli_blocked('pcfg_guesser.py', ['-r', name, '-s', sn + 'pty'], [b'\n', b'h\n', b'\n'], settle=0.5, use_pty=True)
        run.ev('cli_runs'); run.ev('blocked_cli_runs'); run.add_to_set('stdin_conditions', 'pty typed ENTER/h while blocked')
        if not to and info['blocked']:
            if out != ref:
                want = set(ref.split(b'\n'))
                foreign = [l.decode('utf-8', 'replace') for l in out.split(b'\n') if l not in want][:3]
                run.violation(f'status / help requests typed on a terminal while the generator was blocked changed stdout ({out.count(10)} lines of {ref.count(10)}; lines that are no guesses: {foreign})',
                              case, observed=foreign); return
            run.ev('typed_requests_while_blocked_left_the_stream_intact')
        # a quit typed on the terminal and followed by more typing (ENTER to look at the status once more, h): the quit stands
        late = []
        for attempt, settle in enumerate([2.0, 6.0]):
            s3 = f'{sn}ptyq{attempt}'
            out, err, rc, to, info = cli.run_cli_blocked('pcfg_guesser.py', ['-r', name, '-s', s3], [b'q\n', b'\n', b'h\n'], settle=settle, use_pty=True)
            run.ev('cli_runs'); run.ev('blocked_cli_runs'); run.add_to_set('stdin_conditions', 'pty typed q, ENTER, h while blocked')
            if to or not info['blocked']:
                run.inconc('blocked-quit (typed): watchdog / not blocked'); break
            if not ref.startswith(out) or (out and not out.endswith(b'\n')):
                run.violation('q followed by further requests typed on a terminal while the generator was blocked: stdout is not a line-aligned prefix of the uninterrupted stream', case,
                              observed=out[-120:].decode('utf-8', 'replace')); return
            if len(out) > info['fill'] + 2 * 8192 + 2 * maxpt + 4096:
                late.append(f'{len(out)} bytes written, the generator was blocked at about {info["fill"]} (whole stream {len(ref)}), settle {settle}s')
                continue
            out2, err2, rc2, to2 = cli.run_cli('pcfg_guesser.py', ['-r', name, '-s', s3, '--load'], stdin_mode='open')
            run.ev('cli_runs'); run.ev('cli_resumes')
            if not to2:
                lost = Counter(ref.split(b'\n')) - (Counter(out.split(b'\n')) + Counter(out2.split(b'\n')))
                if lost:
                    run.violation(f'q followed by further requests typed on a terminal + --load lost {sum(lost.values())} guesses', case, observed=[x.decode('utf-8', 'replace') for x in list(lost)[:5]]); return
            run.ev('typed_quit_followed_by_requests_honoured')
            late = []
            break
        if len(late) == 2:
            run.violation('an explicit quit typed on a terminal and followed by further requests (ENTER, h) while the generator was blocked on its output was not honoured: ' + late[-1], case,
                          observed=late); return
        # a quit typed ahead on the terminal, before the program has started to read: it is a quit like any other
        late = []
        for attempt, settle in enumerate([2.0, 6.0]):
            s4 = f'{sn}ptya{attempt}'
            out, err, rc, to, info = cli.run_cli_blocked('pcfg_guesser.py', ['-r', name, '-s', s4], [], settle=settle, use_pty=True, pretyped=b'q\n')
            run.ev('cli_runs'); run.ev('blocked_cli_runs'); run.add_to_set('stdin_conditions', 'pty with q typed ahead')
            if to:
                run.inconc('typed-ahead quit: watchdog'); break
            if not ref.startswith(out) or (out and not out.endswith(b'\n')):
                run.violation('q typed ahead on a terminal: stdout is not a line-aligned prefix of the uninterrupted stream', case, observed=out[-120:].decode('utf-8', 'replace')); return
            if len(out) > info.get('fill', 0) + 2 * 8192 + 2 * maxpt + 4096 + 65536:
                late.append(f'{len(out)} bytes written of a stream of {len(ref)}, settle {settle}s')
                continue
            out2, err2, rc2, to2 = cli.run_cli('pcfg_guesser.py', ['-r', name, '-s', s4, '--load'], stdin_mode='open')
            run.ev('cli_runs'); run.ev('cli_resumes')
            if not to2:
                lost = Counter(ref.split(b'\n')) - (Counter(out.split(b'\n')) + Counter(out2.split(b'\n')))
                if lost:
                    run.violation(f'q typed ahead on a terminal + --load lost {sum(lost.values())} guesses', case, observed=[x.decode('utf-8', 'replace') for x in list(lost)[:5]]); return
            run.ev('typed_ahead_quits_honoured')
            late = []
            break
        if len(late) == 2:
            run.violation('an explicit quit typed ahead on a terminal (it was waiting in the input queue when the program started) was not honoured: ' + late[-1], case, observed=late); return
        # end of input on the terminal (CTRL-D at the start of a line) is a standard-input condition, not a request to quit
        out, err, rc, to, info = cli.run_cli_blocked('pcfg_guesser.py', ['-r', name, '-s', sn + 'eof'], [b'\x04'], settle=0.5, use_pty=True)
        run.ev('cli_runs'); run.ev('blocked_cli_runs'); run.add_to_set('stdin_conditions', 'pty CTRL-D while blocked')
        if not to and info['blocked']:
            if out != ref:
                run.violation(f'end of input typed on a terminal (CTRL-D) while the generator was blocked changed stdout ({out.count(10)} lines of {ref.count(10)})', case,
                              observed={'stderr_tail': err[-200:].decode('utf-8', 'replace')}); return
            run.ev('terminal_eof_left_the_stream_intact')
        run.sample({'cli': 'pcfg_guesser.py (stdout back-pressure)', 'stream_bytes': len(ref), 'largest_preterminal_bytes': maxpt, 'requests': [repr(c) for c in reqs]})
    finally:
        for f in os.listdir(repo.scratch()):
            if f.startswith(sn) and f.endswith(('.sav', '.omn')):
                os.remove(os.path.join(repo.scratch(), f))
        repo.drop_rules(name)

def check_big_queue_status(run, case):
    """Status requests while the queue holds tens of thousands of pre-terminals (the ruleset of C01's big-queue case): whatever the status report looks at, it
    looks at it while the generation loop keeps popping and pushing.  The stream with requests is the stream without."""
    from . import c01
    import random
    rng = random.Random(case['hseed'])
    big = c01.big_queue_case(rng)
    name, path = gstream.materialise(big['spec'], 'c12q')
    sn = session.new_session_name('c12q')
    try:
        n = str(case['n'])
        ref, err, rc, to = cli.run_cli('pcfg_guesser.py', ['-r', name, '-s', sn, '-n', n], stdin_mode='devnull', timeout=300, max_out=64 << 20)
        run.ev('cli_runs')
        if to or ref.count(10) != case['n']:
            run.inconc('big-queue reference run did not complete'); return
        for attempt in range(2):
            reqs = [(0.6 if k == 0 else rng.choice([0.02, 0.05, 0.11]), rng.choice([b'\n', b'\n', b'h\n'])) for k in range(40)]
            out, err, rc, to = cli.run_cli('pcfg_guesser.py', ['-r', name, '-s', sn + 'r', '-n', n], stdin_mode='timed', data=reqs, timeout=300, max_out=64 << 20)
            run.ev('cli_runs'); run.ev('big_queue_status_runs'); run.add_to_set('stdin_conditions', 'status requests with more than 50 000 pre-terminals queued')
            if to:
                run.inconc('big-queue run: watchdog'); continue
            answered = err.count(b'Status Report') + err.count(b'Help')
            run.ev('status_reports_answered_with_a_big_queue', answered)
            if out != ref:
                k = next((i for i, (a, b) in enumerate(zip(out, ref)) if a != b), min(len(out), len(ref)))
                run.violation(f'status / help requests while more than 50 000 pre-terminals were queued changed the stream: {out.count(10)} lines of {ref.count(10)} (first difference in line {out[:k].count(10) + 1}; '
                              f'{answered} requests had been answered)', case, observed={'stderr_tail': err[-300:].decode('utf-8', 'replace')}); return
        run.case(h(['bigq-status', case['hseed']]))
    finally:
        session.drop_session(sn); session.drop_session(sn + 'r')
        repo.drop_rules(name)

def wd_fired(run):
    return sum(n for k, n in run.inconclusive_why.items() if k.startswith('scheduler watchdog'))

AGES = [None, None, 59, 3600, 86399, 86400, 172799, 172800, 200000, 10 ** 7, 10 ** 10]

def check_noquit(run, case, name, sn, U, I, steps, label, age=None):
    r, s = sched.run_scheduled(['-r', name, '-s', sn], steps, age=age)
    if age:
        run.ev('aged_session_runs'); run.add_to_set('session_ages', str(age))
    run.ev('scheduled_runs'); run.ev('line_events', s.n_events)
    run.add_to_set('interleavings', s.digest())
    for st in s.sites:
        run.add_to_set('yield_sites', repr(st))
    desc = [x.as_list() for x in steps]
    if s.problems:
        run.inconc('scheduler watchdog: ' + s.problems[0]); return True
    if r.exc is not None:
        run.violation(f'{label} {desc}: main() raised {r.exc!r}', case, observed=r.stderr[-500:]); return False
    if r.stdout != '':
        run.violation(f'{label} {desc} (session age {age}s): keypress-thread activity wrote to stdout, which carries the guess stream', case,
                      observed=r.stdout[:200]); return False
    if r.stdout_missing:
        run.violation(f'{len(r.stdout_missing)} guess(es) handed to print_guess never reached standard output (they were written somewhere else)', case,
                      observed=r.stdout_missing[:5]); return False
    if r.guesses != U.guesses:
        k = next((i for i, (a, b) in enumerate(zip(r.guesses, U.guesses)) if a != b), min(len(r.guesses), len(U.guesses)))
        run.violation(f'{label}: stream changed by keypress-thread activity {desc} (no quit was requested): {len(r.guesses)} of {len(U.guesses)} guesses, '
                      f'first difference at guess {k}', case, observed={'got': r.guesses[max(0, k - 2):k + 3], 'deliveries': s.deliveries, 'stderr_tail': r.stderr[-300:]},
                      expected=U.guesses[max(0, k - 2):k + 3])
        return False
    if s.deliveries and any(0 < d[0] for d in s.deliveries) and 0 < len(r.guesses):
        run.nontrivial(s.digest())
    return True

def check_quit(run, case, name, sn, U, Upg, I, steps, label):
    session.drop_session(sn)
    A, s = sched.run_scheduled(['-r', name, '-s', sn], steps, age=[None, 172800, 10 ** 6][len(steps) % 3])
    run.ev('scheduled_runs'); run.ev('line_events', s.n_events); run.ev('quit_runs')
    if A.stdout != '':
        run.violation(f'{label} {[x.as_list() for x in steps]}: the quit handling wrote to stdout', case, observed=A.stdout[:200]); return False
    if A.stdout_missing:
        run.violation(f'{len(A.stdout_missing)} guess(es) handed to print_guess never reached standard output (they were written somewhere else)', case,
                      observed=A.stdout_missing[:5]); return False
    run.add_to_set('interleavings', s.digest())
    desc = [x.as_list() for x in steps]
    if s.problems:
        run.inconc('scheduler watchdog: ' + s.problems[0]); return True
    if A.exc is not None:
        run.violation(f'{label} {desc}: main() raised {A.exc!r}', case, observed=A.stderr[-500:]); return False
    Ug = U.guesses
    if A.guesses != Ug[:len(A.guesses)]:
        k = next((i for i, (a, b) in enumerate(zip(A.guesses, Ug)) if a != b), len(A.guesses))
        run.violation(f'{label} {desc}: after an explicit quit the emitted stream is not a prefix of the uninterrupted stream (differs at guess {k})', case,
                      observed={'got': A.guesses[max(0, k - 3):k + 3], 'deliveries': s.deliveries}, expected=Ug[max(0, k - 3):k + 3]); return False
    done = 'Done processing' in A.stderr
    qstep = next((x for x in steps if x.action == 'q'), None)
    snap = getattr(qstep, 'snapshot', None)
    if snap is not None and qstep.hold in (None, 'after_flag') and A.saves >= 1:
        # the flag was set when the delivery returned: the loop may finish the current pre-terminal / Markov guess and pop one more item
        pops_after = len(A.pops) - snap['pops']
        run.ev('quit_promptness_checked')
        if pops_after > 1:
            run.violation(f'{label} {desc}: explicit quit was ignored: {pops_after} further pre-terminals were popped after the keypress thread had handled q', case,
                          observed={'stderr_tail': A.stderr[-400:], 'guesses_after': len(A.guesses) - snap['guesses']}); return False
    if not done:
        # stopped early: at a pre-terminal boundary or inside a Markov level, and the state was saved after the last guess
        n = len(A.guesses)
        bounds = {0}
        t = 0
        inside_markov = False
        for key, prob, gs in Upg:
            if t < n < t + len(gs):
                inside_markov = key[0] == ('M',)
                if not inside_markov:
                    run.violation(f'{label} {desc}: quit stopped the run inside a non-Markov pre-terminal (after {n - t} of its {len(gs)} guesses)', case,
                                  observed=A.guesses[-3:]); return False
            t += len(gs)
        saves = [e for e in A.events if e[0] == 'SAVE']
        if len(saves) < 2 or saves[-1][2] != n:
            run.violation(f'{label} {desc}: run stopped on quit without saving the session after its last guess', case,
                          observed={'events': [e for e in A.events if e[0] != 'ACTED'][-6:], 'guesses': n}); return False
        # resume must supply exactly the rest
        B = session.run_main(['-r', name, '-s', sn, '--load'])
        run.ev('resumes')
        need = Counter(Ug)
        have = Counter(A.guesses) + Counter(B.guesses)
        lost = need - have
        if lost:
            run.violation(f'{label} {desc}: quit + resume lost {sum(lost.values())} guess(es)', case, observed=list(lost.elements())[:8]); return False
        sv = session.read_sav(sn)
        px = sv.getfloat('guessing_info', 'max_probability')
        allowed = Counter()
        for key, prob, gs in Upg:
            if prob == px:
                allowed.update(gs)
        surplus = have - need - allowed
        if surplus:
            run.violation(f'{label} {desc}: quit + resume repeated guesses whose pre-terminal does not tie with the saved position', case,
                          observed=list(surplus.elements())[:8]); return False
        if inside_markov:
            run.ev('quit_inside_markov_level')
            if not check_resumed_phase(run, case, name, sn, B, label, desc):
                return False
        run.nontrivial(s.digest())
    else:
        if A.guesses != Ug:
            run.violation(f'{label} {desc}: run reported completion but the stream is incomplete', case); return False
    return True

def check_resumed_phase(run, case, name, sn, Bref, label, desc):
    """Requests and quits while a restored OMEN remainder is being replayed (the .sav is unchanged by a resumed run that completes)."""
    import random
    rng = random.Random(len(Bref.guesses) * 7919 + len(desc))
    sav = open(session.session_files(sn)[0]).read()
    omn = open(session.session_files(sn)[1], 'rb').read() if os.path.exists(session.session_files(sn)[1]) else None
    pre = c15.preamble(Bref)
    if len(pre) < 2:
        return True
    B0, s0 = sched.run_scheduled(['-r', name, '-s', sn, '--load'])
    if B0.guesses != Bref.guesses:
        run.violation(f'{label} {desc}: resuming the same save file twice gives different streams', case, observed=B0.guesses[:8], expected=Bref.guesses[:8]); return False
    I = s0.m_idx
    for act in ['', 'h', 'q']:
        # land inside the replayed remainder: it is the first thing a resumed run generates
        hi = max(2, int(I * len(pre) / max(1, len(Bref.guesses))))
        p = rng.randint(1, hi)
        st = sched.Step(p, act)
        # a session that has been running for days: the saved running_time is what a resumed status report starts from
        aged = rng.choice([0, 86400, 172800, 400000, 10 ** 9])
        if aged:
            cfg = session.read_sav(sn)
            cfg.set('session_info', 'running_time', str(aged))
            cfg.set('session_info', 'num_guesses', str(rng.choice([5, 10 ** 6, 10 ** 13])))
            with open(session.session_files(sn)[0], 'w') as f:
                cfg.write(f)
            run.ev('aged_session_runs'); run.add_to_set('session_ages', 'saved:' + str(aged))
        R, s = sched.run_scheduled(['-r', name, '-s', sn, '--load'], [st])
        if R.stdout != '':
            run.violation(f'{label}: resumed run (saved running_time {aged}s): a {act!r} request wrote to stdout, which carries the guess stream', case,
                          observed=R.stdout[:200]); return False
        if R.stdout_missing:
            run.violation(f'{len(R.stdout_missing)} guess(es) handed to print_guess never reached standard output (they were written somewhere else)', case,
                          observed=R.stdout_missing[:5]); return False
        run.ev('scheduled_runs'); run.ev('scheduled_resumed_runs'); run.add_to_set('interleavings', s.digest())
        if s.problems:
            run.inconc('scheduler watchdog: ' + s.problems[0]); continue
        if act != 'q':
            if R.guesses != Bref.guesses:
                run.violation(f'{label}: resumed run: stream changed by a {act!r} request at yield point {p} while the restored remainder was replayed', case,
                              observed={'n': len(R.guesses), 'stderr_tail': R.stderr[-300:]}, expected={'n': len(Bref.guesses)}); return False
        else:
            if R.guesses != Bref.guesses[:len(R.guesses)]:
                run.violation(f'{label}: resumed run: after q the stream is not a prefix of the resumed stream', case, observed=R.guesses[:8]); return False
            snap = getattr(st, 'snapshot', None)
            if snap is not None and len(R.pops) - snap['pops'] > 1:
                run.violation(f'{label}: resumed run: explicit quit at yield point {p} (while the restored remainder was replayed) was ignored: '
                              f'{len(R.pops) - snap["pops"]} further pre-terminals popped', case, observed={'stderr_tail': R.stderr[-500:]}); return False
            if 'Done processing' not in R.stderr:
                C = session.run_main(['-r', name, '-s', sn, '--load'])
                lost = Counter(Bref.guesses) - (Counter(R.guesses) + Counter(C.guesses))
                if lost:
                    run.violation(f'{label}: resumed run interrupted again at yield point {p}: {sum(lost.values())} guesses lost', case, observed=list(lost.elements())[:8]); return False
            # put the original save state back for the next probe
            open(session.session_files(sn)[0], 'w').write(sav)
            if omn is not None:
                open(session.session_files(sn)[1], 'wb').write(omn)
    return True

def check_case(run, case, tier='quick'):
    import random
    rng = random.Random(case['hseed'])
    name, path = gstream.materialise(case['spec'], 'c12')
    sn = session.new_session_name('c12') + rng.choice(['', '', '.sav', 'a', '.saved.x', '.v'])       # session names are free text
    try:
        U, s0 = sched.run_scheduled(['-r', name, '-s', sn])
        if U.exc is not None or len(U.pops) < 4:
            run.inconc('reference run too small'); return
        Upg = c15.pops_with_guesses(U)
        # F-C15b territory: a quit inside the final Markov pre-terminal is recorded under C15; keep C12's schedules clear of it
        final_markov = Upg[-1][0][0] == ('M',)
        I = s0.m_idx
        run.ev('reference_yield_points', I)
        limit_p = I
        pts_all = list(range(1, I + 1))
        npts = POINTS[tier] if tier == 'thorough' else max(25, min(POINTS[tier], 500000 // max(I, 1)))
        pts = pts_all if len(pts_all) <= npts else sorted(rng.sample(pts_all, npts))
        EOF, ERR = EOFError, sched.ExplodingStr('x')
        wd0 = wd_fired(run)
        def stuck():
            # a helper thread that never answers costs one 5 s watchdog per delivery: give the case up (inconclusive) instead of spending hours
            if wd_fired(run) - wd0 >= 6:
                run.inconc('scheduler watchdog fired 6 times in one session: case abandoned'); return True
            return False
        for p in pts:
            if stuck():
                return
            act = rng.choice(['', 'h', EOF, ERR, '', 'zz'])
            hold = rng.choice([None, None, rng.randint(1, 60), rng.randint(1, 60), 'in:print_status', 'in:get_status', 'in:print_help'])
            rel = None if hold is None else p + rng.randint(1, 80)
            if not check_noquit(run, case, name, sn, U, I, [sched.Step(p, act, hold, rel)], 'single request', age=rng.choice(AGES)):
                return
            run.case()
        # sequences of up to 3 requests (status/help), optionally ending with EOF / handler error
        for _ in range(max(8, len(pts) // 6)):
            k = rng.randint(2, 3) if tier == 'quick' else rng.choice([2, 3, 4, 6])
            ps = sorted(rng.sample(pts_all, k))
            acts = [rng.choice(['', 'h', 'x']) for _ in range(k - 1)] + [rng.choice(['', 'h', EOF, ERR])]
            steps = [sched.Step(p, a, rng.choice([None, rng.randint(1, 40)]), p + rng.randint(1, 40)) for p, a in zip(ps, acts)]
            if stuck():
                return
            if not check_noquit(run, case, name, sn, U, I, steps, 'request sequence', age=rng.choice(AGES)):
                return
            run.case()
        # explicit quit at p, flag and thread exit separated (hold after the flag is set, release later)
        qpts = [p for p in pts if p <= limit_p] or pts[:1]
        for p in qpts:
            if stuck():
                return
            mode = rng.choice(['plain', 'after_flag', 'after_flag', 'nsteps'])
            if mode == 'plain':
                steps = [sched.Step(p, 'q')]
            elif mode == 'after_flag':
                steps = [sched.Step(p, 'q', 'after_flag', p + rng.choice([1, 3, 10, 40, 200, 100000]))]
            else:
                steps = [sched.Step(p, 'q', rng.randint(1, 30), p + rng.randint(1, 60))]
            if rng.random() < 0.3 and p > 3:
                steps.insert(0, sched.Step(rng.randint(1, p - 1), rng.choice(['', 'h'])))
            if not check_quit(run, case, name, sn, U, Upg, I, steps, 'quit'):
                return
            run.case()
        run.sample({'base': case['spec']['base'], 'omen_probs': case['spec']['omen']['probs'], 'U_guesses': len(U.guesses), 'yield_points': I,
                    'points_explored': len(pts), 'example_schedule': [sched.Step(pts[len(pts) // 2], 'q', 'after_flag', pts[len(pts) // 2] + 10).as_list()]})
    finally:
        session.drop_session(sn)
        repo.drop_rules(name)

STDIN_CONDITIONS = [('pty', b''), ('open', b''), ('eof', b''), ('lines', b'\n'), ('lines', b'\n\nh\n\n'), ('lines_open', b'\nh\n'),
                    ('devnull', b''), ('closed', b'')]

def check_stdin(run, case):
    """Real subprocesses: the whole stream must arrive on stdout whatever stdin is."""
    name, path = gstream.materialise(case['spec'], 'c12b')
    sn = session.new_session_name('c12b')
    try:
        U = session.run_main(['-r', name, '-s', sn])
        ref = ('\n'.join(U.guesses) + '\n').encode('utf-8') if U.guesses else b''
        if len(U.guesses) < 1500:
            run.inconc('big ruleset too small'); return
        for mode, data in STDIN_CONDITIONS:
            out, err, rc, to = cli.run_cli('pcfg_guesser.py', ['-r', name, '-s', sn + mode], stdin_mode=mode, data=data)
            run.ev('cli_runs'); run.add_to_set('stdin_conditions', mode + repr(data))
            if to:
                run.inconc('cli watchdog'); continue
            if out != ref:
                got = out.split(b'\n')
                run.violation(f'stdin condition {mode}{data!r}: stdout is not the full guess stream ({len(got) - 1} lines of {len(U.guesses)})', case,
                              observed={'first': out[:80].decode('utf-8', 'replace'), 'stderr_tail': err[-300:].decode('utf-8', 'replace'), 'rc': rc},
                              expected={'lines': len(U.guesses)})
                return
            run.case(h(['stdin', case['spec']['base'], mode, repr(data)]))
            # the same condition with --limit: the first N guesses, all of them, whatever the keyboard thread is doing when the limit is reached
            nlim = max(1, (len(U.guesses) * 3) // 5 + len(mode))
            out, err, rc, to = cli.run_cli('pcfg_guesser.py', ['-r', name, '-s', sn + mode + 'n', '-n', str(nlim)], stdin_mode=mode, data=data)
            run.ev('cli_runs'); run.ev('cli_limit_runs')
            if not to:
                want = ('\n'.join(U.guesses[:nlim]) + '\n').encode('utf-8')
                if out != want:
                    run.violation(f'stdin condition {mode}{data!r} with --limit {nlim}: stdout holds {out.count(10)} lines, expected the first {nlim} guesses '
                                  f'({"a prefix of them" if want.startswith(out) else "not a prefix"})', case,
                                  observed={'tail': out[-80:].decode('utf-8', 'replace'), 'stderr_tail': err[-300:].decode('utf-8', 'replace'), 'rc': rc})
                    return
            for ext in ('.sav', '.omn'):
                try:
                    os.remove(os.path.join(repo.scratch(), sn + mode + ext))
                except FileNotFoundError:
                    pass
        # a user on a real terminal who only asks for status / help: nothing may change
        out, err, rc, to = cli.run_cli('pcfg_guesser.py', ['-r', name, '-s', sn + 'tty'], stdin_mode='pty_timed', data=[(0.02, b'\n'), (0.03, b'h\n'), (0.05, b'\n')])
        run.ev('cli_runs'); run.add_to_set('stdin_conditions', 'pty typed ENTER/h')
        if not to:
            if out != ref:
                run.violation(f'status requests typed on a terminal changed stdout ({out.count(10)} lines of {len(U.guesses)})', case,
                              observed={'head': out[:80].decode('utf-8', 'replace'), 'stderr_tail': err[-200:].decode('utf-8', 'replace')}); return
            run.case(h(['stdin', case['spec']['base'], 'pty typed']))
        # q typed on a real terminal: line-aligned prefix, and --load supplies the rest
        out, err, rc, to = cli.run_cli('pcfg_guesser.py', ['-r', name, '-s', sn + 'ttyq'], stdin_mode='pty_timed', data=[(0.03, b'q\n')])
        run.ev('cli_runs'); run.add_to_set('stdin_conditions', 'pty typed q')
        if not to:
            if not ref.startswith(out) or (out and not out.endswith(b'\n')):
                run.violation('q typed on a terminal: stdout is not a line-aligned prefix of the uninterrupted stream', case, observed=out[-120:].decode('utf-8', 'replace')); return
            if out != ref:
                out2, err2, rc2, to2 = cli.run_cli('pcfg_guesser.py', ['-r', name, '-s', sn + 'ttyq', '--load'], stdin_mode='pty')
                run.ev('cli_runs'); run.ev('cli_resumes')
                lost = Counter(ref.split(b'\n')) - (Counter(out.split(b'\n')) + Counter(out2.split(b'\n')))
                if lost:
                    run.violation(f'q typed on a terminal + --load lost {sum(lost.values())} guesses', case, observed=[x.decode('utf-8', 'replace') for x in list(lost)[:5]]); return
        # an explicit q on a pipe: prefix + resume = everything
        out, err, rc, to = cli.run_cli('pcfg_guesser.py', ['-r', name, '-s', sn + 'q'], stdin_mode='lines_open', data=b'q\n')
        run.ev('cli_runs')
        if not to:
            if not ref.startswith(out) or (out and not out.endswith(b'\n')):
                run.violation('q on stdin: stdout is not a line-aligned prefix of the uninterrupted stream', case, observed=out[-120:].decode('utf-8', 'replace')); return
            if out != ref:
                out2, err2, rc2, to2 = cli.run_cli('pcfg_guesser.py', ['-r', name, '-s', sn + 'q', '--load'], stdin_mode='open')
                run.ev('cli_runs'); run.ev('cli_resumes')
                need = Counter(ref.split(b'\n')); have = Counter(out.split(b'\n')) + Counter(out2.split(b'\n'))
                lost = need - have
                if lost:
                    run.violation(f'q on stdin + --load lost {sum(lost.values())} guesses', case, observed=[x.decode('utf-8', 'replace') for x in list(lost)[:5]]); return
        run.sample({'cli': 'pcfg_guesser.py', 'guesses': len(U.guesses), 'stdin_conditions': [m + repr(d) for m, d in STDIN_CONDITIONS]})
    finally:
        for f in os.listdir(repo.scratch()):
            if f.startswith(sn) and f.endswith(('.sav', '.omn')):
                os.remove(os.path.join(repo.scratch(), f))
        repo.drop_rules(name)

def run(run, rng):
    run.required_events = ['scheduled_runs', 'quit_runs', 'resumes', 'cli_runs', 'quit_inside_markov_level', 'scheduled_resumed_runs', 'quit_promptness_checked', 'aged_session_runs', 'blocked_quits_honoured']
    run.min_distinct = 30
    run.assumptions = ['yield points = statement boundaries (LINE events) of run/_save_session/omen_generate_guesses/_recursive_guesses/restore_omen in the generation '
                       'thread and of keypress/print_status/get_status in the helper thread; preemption inside a single statement is not modelled',
                       'time.sleep(0.1) in keypress is a no-op; a quit landing in the FINAL pre-terminal is the recorded finding F-C15b (C15) and is not scheduled here',
                       'exit status of CLI runs is ignored (CPython may abort at shutdown while a daemon thread is blocked on stdin); only stdout bytes are judged']
    for i in range(N[run.tier]):
        case = gen_case(rng)
        run.guard(case, check_case, run.tier, seconds=600)
    nbig = 1 if run.tier == 'quick' else 3
    if run.shard[0] < (2 if run.tier == 'quick' else 8):
        for i in range(nbig):
            case = {'spec': big_spec(rng), 'hseed': 0, 'big': True}
            run.guard(case, check_stdin, seconds=600)
    if run.shard[0] == 1 % run.shard[1]:
        run.guard({'bigq_status': True, 'hseed': rng.getrandbits(32), 'n': 150000}, check_big_queue_status, seconds=900)
    if run.shard[0] == (0 if run.tier == 'quick' else run.shard[0]) and run.shard[0] < 4:
        run.guard({'spec': huge_spec(rng), 'hseed': rng.getrandbits(32), 'huge': True}, check_blocked_quit, run.tier, seconds=900)

def replay(run, case):
    c = case['case']
    if c.get('bigq_status'):
        check_big_queue_status(run, c)
    elif c.get('huge'):
        check_blocked_quit(run, c, 'thorough')
    elif c.get('big'):
        check_stdin(run, c)
    else:
        check_case(run, c, 'thorough')
