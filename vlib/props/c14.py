"""C14 — skip_brute and all_lower are pure restrictions of the default run, also through save/restore."""
import os, copy
from collections import Counter
from fractions import Fraction
from .. import repo, rulesets, oracles, monitors, gstream, session
from ..evidence import timebox, CaseTimeout, h
from .c08 import judge

LEVEL = 'exploration'
RULE = ('generated rulesets with the Markov structure first / middle / last / absent / the only structure (1-3 OMEN levels), all four combinations of '
        '--skip_brute and --all_lower: POP sequences of the real queue under each flag set are compared with the default run (skip_brute: same '
        'pre-terminals minus Markov ones, same order, probabilities / (1-P(M)); all_lower: language and probabilities of the reference model with every mask '
        'group collapsed to the all-L mask, grammar tables otherwise identical), and quit/--load histories through the real main() in which the flags '
        'are given only (or contradicted) on the first run. non-trivial = ruleset with a Markov structure and >=1 alpha variable; distinct by hash(spec)')
SHARDS = {'quick': 4, 'thorough': 16}
N = {'quick': 60, 'thorough': 1500}

def gen_case(rng):
    place = rng.choice(['first', 'middle', 'last', 'absent', 'absent', 'only'])
    labels = rng.sample(['A1', 'A2', 'A3', 'A4'], rng.randint(1, 2)) + rng.sample(['D1', 'D2', 'O1', 'Y1', 'K4'], rng.randint(1, 2))
    mg, xg = rng.choice([(1, 3), (2, 4), (2, 5)])
    spec = rulesets.gen_spec(rng, with_m=False, labels=labels, n_base=rng.randint(1, 4), max_len=3, min_groups=mg, max_groups=xg,
                             pool=rng.choice(['counts', 'dyadic', 'decimal', 'random', 'equal', 'thirds']))
    if rng.random() < 0.5:
        rulesets.add_odd_alpha(rng, spec, k=4)      # letters with unusual case mappings, among them U+0130, the one letter the trainer stores although lower() alters it
    if place != 'absent':
        om = rulesets.gen_omen(rng, alphabet=rng.choice(['ab', 'abc']), max_len=None)
        lv = rng.sample(range(0, 7), rng.randint(1, 3))
        pr = sorted([rng.choice([0.5, 0.25, 0.1, 0.01, 1e-3]) * (1 + 1e-3 * i) for i in range(len(lv))], reverse=True)
        om['probs'] = [[l, p] for l, p in zip(lv, pr)]
        om['keyspace'] = [[l, 1] for l in range(19)]
        spec['omen'] = om
        # also Markov shares below 1e-4, which repr() writes in exponent notation (a ruleset trained with a coverage very close to 1)
        pm = rng.choice([0.5, 0.25, 0.4002480779760552, 0.1, 0.3, 1 / 3, 0.6, 4.999999999999748e-05, 1e-05, 3.2e-07, 0.0, 1e-17])     # 0.0 / 1e-17: Markov silenced by hand, 1 - P(M) == 1.0
        if place == 'only':
            spec['base'] = [['M', 1.0]]
        else:
            # renormalise the others so the list looks like a trainer's (sum 1), then insert M at the requested place
            tot = sum(p for _, p in spec['base'])
            spec['base'] = [[s, p / tot * (1 - pm)] for s, p in spec['base']]
            i = {'first': 0, 'last': len(spec['base']), 'middle': len(spec['base']) // 2}[place]
            spec['base'].insert(i, ['M', pm])
            if rng.random() < 0.25:
                # what the trainer writes for a list whose passwords all share one structure: count / total with the Markov pseudo-count N/c - N.
                # On paper p / (1 - P(M)) = 1; as floats it is 1 +- 1 ulp
                N, c = rng.randint(1, 40), rng.choice([0.6, 0.6, 0.1, 0.2, 0.3, 0.7, 0.9, 0.45, 0.99995, 0.999999])
                pseudo = N / c - N
                keep = next(b for b in spec['base'] if b[0] != 'M')
                spec['base'] = sorted([[keep[0], N / (N + pseudo)], ['M', pseudo / (N + pseudo)]], key=lambda r: -r[1])
    return {'spec': spec, 'place': place, 'hseed': rng.getrandbits(32)}

def pops_of(path, skip_brute, skip_case):
    pcfg, mon = gstream.run_queue(path, dict(skip_brute=skip_brute, skip_case=skip_case, folder='Grammar'))
    return pcfg, [(p['key'] + (p['base_prob'],), p['prob']) for p in mon.pops], mon

def same_order_modulo_ties(a, b):
    """a, b: lists of (key, prob).  Equal as sequences of keys, allowing permutations inside a run of equal probabilities of either list."""
    if len(a) != len(b):
        return False
    for probs_of in (a, b):
        i, ok = 0, True
        while i < len(a):
            j = i
            while j + 1 < len(a) and probs_of[j + 1][1] == probs_of[i][1]:
                j += 1
            if Counter(k for k, _ in a[i:j + 1]) != Counter(k for k, _ in b[i:j + 1]):
                ok = False
                break
            i = j + 1
        if ok:
            return True
    return False

def strip_bp(key):
    return key[:2]

def canon(pops):
    """Replace the base probability in each key by its rank among the base probabilities of structures with the same label sequence
    (rescaling is monotone, so the rank identifies the base structure under every flag set)."""
    bps = {}
    for k, p in pops:
        bps.setdefault(k[0], set()).add(k[2])
    rank = {labs: {bp: i for i, bp in enumerate(sorted(v, reverse=True))} for labs, v in bps.items()}
    return [((k[0], k[1], rank[k[0]][k[2]]), p) for k, p in pops]

def check_case(run, case, tier='quick'):
    import random
    rng = random.Random(case['hseed'])
    name, path = gstream.materialise(case['spec'], 'c14')
    sn = session.new_session_name('c14')
    try:
        disk = oracles.Disk(path)
        res = {}
        for sb in (False, True):
            for sc in (False, True):
                if sb and case['place'] == 'only':
                    # nothing but the Markov structure and it is switched off: the tool may refuse to load (1/(1-1)); either way nothing is emitted
                    try:
                        pcfg, pops, mon = pops_of(path, sb, sc)
                    except Exception:
                        pcfg, pops, mon = res[(False, sc)][0], [], type('M', (), {'problems': []})()
                        run.ev('markov_only_skip_brute_refused')
                    if pops:
                        run.violation('--skip_brute on a Markov-only ruleset emitted pre-terminals', case, observed=pops[:3]); return
                    res[(sb, sc)] = (pcfg, pops)
                    continue
                pcfg, pops, mon = pops_of(path, sb, sc)
                res[(sb, sc)] = (pcfg, pops)
                run.ev('POP', len(pops))
                for kind, k, msg in mon.problems[:1]:
                    run.violation(f'flags skip_brute={sb} all_lower={sc}: {kind}: {msg}', case); return
        has_m = any(s == 'M' for s, _ in case['spec']['base'])
        pm = next((float(p) for s, p in disk.base_rows['Grammar'] if s == 'M'), None)
        # ---- skip_brute vs default, for both all_lower settings
        for sc in (False, True):
            D = canon(res[(False, sc)][1]); S = canon(res[(True, sc)][1])
            Dn = [(k, p) for k, p in D if 'M' not in k[0]]
            if Counter(k for k, _ in S) != Counter(k for k, _ in Dn):
                lost = list((Counter(k for k, _ in Dn) - Counter(k for k, _ in S)).elements())[:4]
                extra = list((Counter(k for k, _ in S) - Counter(k for k, _ in Dn)).elements())[:4]
                run.violation(f'--skip_brute (all_lower={sc}) does not emit exactly the non-Markov pre-terminals of the default run: {len(S)} vs {len(Dn)}', case,
                              observed={'lost': lost, 'extra': extra}); return
            scale = Fraction(1) if (pm is None or pm == 1.0) else 1 / (1 - Fraction(pm))
            dprob = {}
            for k, p in Dn:
                dprob.setdefault(k, []).append(p)
            for k, p in S:
                cands = dprob[k]
                if not any(abs(Fraction(p) - Fraction(d) * scale) <= Fraction(d) * scale * 6 * Fraction(2) ** -52 + Fraction(2) ** -1070 for d in cands):
                    run.violation(f'--skip_brute: probability of {k} is not the default probability rescaled by 1/(1-P(M))', case,
                                  observed=repr(p), expected=[repr(float(Fraction(d) * scale)) for d in cands]); return
            if pm is None and [(k, p) for k, p in S] != [(k, p) for k, p in Dn]:
                run.violation('--skip_brute changed the run of a ruleset without any Markov structure', case); return
            # order: the default order, modulo pre-terminals whose probabilities tie (before or after rescaling)
            Sd = [(k, p) for k, p in S]; Dd = [(k, p) for k, p in Dn]
            if not same_order_modulo_ties(Sd, Dd):
                # rescaling changes the last bits, so pre-terminals that tie (or nearly tie) may swap: the skip_brute order must still be
                # non-increasing in the DEFAULT run's probabilities up to rounding (1e-13 relative)
                dp = {}
                for k, p in Dd:
                    dp.setdefault(k, []).append(p)
                seq = [max(dp[k]) for k, _ in Sd]
                bad = next((i for i in range(len(seq) - 1) if seq[i] < seq[i + 1] * (1 - 1e-13)), None)
                if bad is not None:
                    run.violation(f'--skip_brute (all_lower={sc}) emits the surviving pre-terminals in a different order than the default run (position {bad})', case,
                                  observed=Sd[bad:bad + 3], expected=[(k, p) for k, p in Dd if k in (Sd[bad][0], Sd[bad + 1][0])]); return
                run.ev('order_equal_modulo_rounding_ties')
            run.ev('skip_brute_comparisons')
        # ---- all_lower vs reference model; grammar tables identical apart from C*
        for sb in (False, True):
            g0, gl = res[(sb, False)][0], res[(sb, True)][0]
            for lab in set(g0.grammar) | set(gl.grammar):
                if lab[0] == 'C':
                    if gl.grammar.get(lab) != [{'values': ['L' * int(lab[1:])], 'prob': 1.0}]:
                        run.violation(f'--all_lower: mask table {lab} is not the single all-lower mask with probability 1', case, observed=gl.grammar.get(lab)); return
                elif g0.grammar.get(lab) != gl.grammar.get(lab):
                    run.violation(f'--all_lower changed the non-capitalisation table {lab}', case); return
            if g0.base != gl.base:
                run.violation('--all_lower changed the base structures', case); return
            lang = oracles.Language(disk, sb, True)
            index, total = gstream.oracle_index(lang)
            L = res[(sb, True)][1]
            if Counter(strip_bp(k) for k, _ in L) != Counter({k: len(v) for k, v in index.items()}):
                run.violation(f'--all_lower (skip_brute={sb}): emitted pre-terminals differ from the all-lower language of the ruleset', case,
                              observed={'emitted': len(L)}, expected={'language': total}); return
            for k, p in L:
                labs, idx = strip_bp(k)
                ok = any(abs(Fraction(p) - lang.exact_prob(e[0], labs, idx)) <= Fraction(monitors.ulp_tol(lang.exact_prob(e[0], labs, idx), len(labs) + 2))
                         for e in index[(labs, idx)])
                if not ok:
                    run.violation(f'--all_lower: probability of {k[:2]} is not base x non-mask factors', case, observed=repr(p)); return
            # the all-lower run is the default run with the mask choice projected away, in the same order modulo ties
            D0 = res[(sb, False)][1]
            proj = []
            seen = set()
            for k, p in D0:
                labs, idx = k[0], k[1]
                if all(i == 0 for l, i in zip(labs, idx) if l[0] == 'C'):
                    proj.append(strip_bp(k))
            if Counter(proj) != Counter(strip_bp(k) for k, _ in L):
                run.violation('--all_lower: pre-terminals are not those of the default run with mask choices collapsed', case); return
            run.ev('all_lower_comparisons')
        # ---- through save/restore: flags only on the first run; contradicting flags on --load
        for sb, sc in rng.sample([(True, False), (False, True), (True, True), (False, False)], 2 if tier == 'quick' else 4):
            U = res[(sb, sc)][1]
            if len(U) < 3:
                continue
            session.drop_session(sn)
            if rng.random() < 0.4:
                # history: an older session of the same name, run with the opposite flags and quit after its first pre-terminal, has left its save file behind;
                # the new session (no --load) replaces it and owes it nothing
                f0 = {}
                def trig0(ev, ctx, f0=f0):
                    if ev[0] == 'POP' and ev[1] == 1 and 'x' not in f0:
                        f0['x'] = ctx.deliver('q')
                old = session.run_main(['-r', name, '-s', sn] + ([] if sb else ['--skip_brute']) + ([] if sc else ['--all_lower']), trigger=trig0)
                if session.session_files(sn) and os.path.exists(session.session_files(sn)[0]):
                    run.ev('new_sessions_started_over_a_stale_save_file_with_other_flags')
            k = rng.randint(1, len(U) - 1)
            fired = {}
            def trig(ev, ctx, k=k, fired=fired):
                if ev[0] == 'POP' and ev[1] == k and 'x' not in fired:
                    fired['x'] = ctx.deliver('q')
            argv = ['-r', name, '-s', sn] + (['--skip_brute'] if sb else []) + (['--all_lower'] if sc else [])
            A = session.run_main(argv, trigger=trig)
            if fired.get('x') is not True or 'Done processing' in A.stderr:
                run.inconc('quit not delivered before completion'); continue
            variant = rng.choice(['noflags', 'noflags', 'contradict'])
            argvB = ['-s', sn, '--load'] + ([] if variant == 'noflags' else (([] if sb else ['--skip_brute']) + ([] if sc else ['--all_lower'])))
            if rng.random() < 0.5:
                argvB = ['-r', name] + argvB            # the rule name may be omitted too: it is in the save file
            B = session.run_main(argvB)
            run.ev('main_runs', 2); run.ev('flag_restore_histories')
            pa = [(p['key'] + (p['base_prob'],), p['prob']) for p in A.pops]
            pb = [(p['key'] + (p['base_prob'],), p['prob']) for p in B.pops]
            if B.exc is not None:
                run.violation(f'--load ({variant}) raised {B.exc!r}', case, observed=B.stderr[-400:]); return
            if not judge(run, case, U, [(pa, True), (pb, False)], [pa[-1][1]], f'flags skip_brute={sb} all_lower={sc} given on the first run only, --load {variant} {argvB}'):
                return
            if sc:
                # the flag came back from the save file: every non-Markov guess of the resumed run is a word of the all-lower language
                langl = oracles.Language(disk, sb, True)
                allowed = set()
                for bi, idx, pr, labs in langl.preterminals(cap=80000):
                    if 'M' not in labs:
                        allowed.update(langl.expand(labs, list(idx)))
                starts = [p['first_guess'] for p in B.pops] + [len(B.guesses)]
                bad = [g for p, a_, b_ in zip(B.pops, starts, starts[1:]) if p['key'][0] != ('M',) for g in B.guesses[a_:b_] if g not in allowed]
                if bad:
                    run.violation('resumed all_lower session emitted guesses outside the all-lower language (capitalised words?)', case, observed=bad[:5]); return
        nt = has_m and any(l[0] == 'A' for l in case['spec']['terms'])
        run.case(h(case['spec']) if nt else None)
        run.add_to_set('markov_placements', case['place'])
        run.sample({'base': case['spec']['base'], 'place': case['place'], 'pops': {f'sb={a},lower={b}': len(v[1]) for (a, b), v in res.items()}})
    finally:
        session.drop_session(sn)
        repo.drop_rules(name)

def check_big_base(run, case):
    """More than 50 000 base structures with the Markov structure among them: --skip_brute loads exactly the structures the default run loads, minus the Markov one
    (judged on what the two loads hold; such a run cannot be exhausted here)."""
    import random
    from . import c01
    rng = random.Random(case['hseed'])
    big = c01.big_queue_case(rng)
    spec = big['spec']
    om = rulesets.gen_omen(rng, alphabet='ab', ngram=2, max_len=3)
    om['probs'] = [[0, 0.01]]; om['keyspace'] = [[l, 1] for l in range(19)]
    spec['omen'] = om
    spec['base'] = [[s_, p_ * 0.8] for s_, p_ in spec['base']]
    spec['base'].insert(rng.choice([0, 10, 25000, 49990]), ['M', 0.2])
    name, path = gstream.materialise(spec, 'c14big')
    try:
        d = monitors.load_pcfg(path, 'x', skip_brute=False, skip_case=False)
        s_ = monitors.load_pcfg(path, 'x', skip_brute=True, skip_case=False)
        key = lambda b: tuple(r for r in b['replacements'])
        dd = Counter(key(b) for b in d.base if 'M' not in b['replacements'])
        ss = Counter(key(b) for b in s_.base)
        run.ev('big_base_loads', 2)
        if dd != ss:
            only_s = list((ss - dd))[:3]; only_d = list((dd - ss))[:3]
            run.violation(f'ruleset with {len(spec["base"])} base structures: --skip_brute loads {sum(ss.values())} non-Markov structures, the default run {sum(dd.values())}; '
                          f'only with --skip_brute: {only_s}, only without: {only_d}', case); return
        run.case(h(['big-base', case['hseed']]))
    finally:
        repo.drop_rules(name)

NEAR_ONE = [0.9999999999, 1 - 2 ** -40, 0.999999999999, 1 - 2 ** -52]
def near_one_cases():
    """Fixed cases (own generators): the Markov structure holds all but 1e-10 .. 2e-16 of the mass (a ruleset trained with a tiny coverage); 1 - P(M) is small but real,
    and --skip_brute has to rescale the other structures by it (seeded C14s: a 'rounding residue' guard left them unscaled)."""
    import random
    out = []
    for i, pm in enumerate(NEAR_ONE):
        r = random.Random(7700 + i)
        while True:
            c = gen_case(r)
            others = [b for b in c['spec']['base'] if b[0] != 'M']
            if c['place'] in ('first', 'middle', 'last') and others:
                break
        tot = sum(p_ for _, p_ in others)
        c['spec']['base'] = [['M', pm]] + [[s_, p_ / tot * (1 - pm)] for s_, p_ in others]
        c['near_one'] = pm
        out.append(c)
    return out

def run(run, rng):
    run.required_events = ['POP', 'skip_brute_comparisons', 'all_lower_comparisons', 'flag_restore_histories']
    run.min_distinct = 8
    run.assumptions = ['P(Markov) = the probability on the first base-structure line that is exactly "M"', 'rescaled probabilities compared within 6 ulp',
                       'order compared modulo permutations inside runs of exactly equal probability (before or after rescaling)']
    if run.shard[0] == 1 % run.shard[1]:
        run.guard({'big_base': True, 'hseed': rng.getrandbits(32)}, check_big_base, seconds=600)
    if run.shard[0] == 2 % run.shard[1]:
        for c in near_one_cases():
            run.guard(c, check_case, run.tier, seconds=120)
    for i in range(N[run.tier]):
        run.guard(gen_case(rng), check_case, run.tier, seconds=120)

def replay(run, case):
    if case['case'].get('big_base'):
        check_big_base(run, case['case'])
    else:
        check_case(run, case['case'], 'thorough')
