"""C07 — a saved ruleset means the same thing to every tool that loads it (round trip of every character)."""
import itertools, os, io, json, contextlib, random
from collections import Counter
from .. import repo, oracles, trained, trainer, monitors
from ..evidence import h

LEVEL = 'exploration'
RULE = ('training lists whose passwords carry each stress character alone / leading / trailing / inner / doubled / after text, delivered $HEX[]-encoded: every code point '
        'str.splitlines or str.strip treats specially (VT FF FS GS RS US NEL NBSP OGHAM-SPACE U+2000-200A LS PS NNBSP MMSP IDEOGRAPHIC-SPACE BOM), space runs, '
        'non-BMP, plus random code points (quick) / ALL BMP scalars in batches of 200 + 4000 astral (thorough); encodings utf-8, latin-1, cp1252, cp1251. For each '
        'training: byte-level reading of the tree == harness tally of the accepted passwords == PcfgGrammar tables (guesser loader) == PCFGPasswordScorer tables '
        '(scorer loader); IP/CP/LN identical in the guesser OMEN loader, OmenScorer and the reference parser; config file lists == directory listings; no '
        'loader diagnostics. non-trivial = batch containing >=1 accepted non-ASCII or whitespace-like character; distinct by hash(code points, encoding)')
SHARDS = {'quick': 4, 'thorough': 16}

SPECIAL = [0x09, 0x0a, 0x0b, 0x0c, 0x0d, 0x1c, 0x1d, 0x1e, 0x1f, 0x20, 0x85, 0xa0, 0x1680, 0x180e, 0x2000, 0x2001, 0x2002, 0x2003, 0x2004, 0x2005, 0x2006,
           0x2007, 0x2008, 0x2009, 0x200a, 0x200b, 0x2028, 0x2029, 0x202f, 0x205f, 0x3000, 0xfeff, 0x00, 0x7f, 0x80, 0x9f, 0xad, 0x300, 0x130, 0x1c5, 0xdf,
           0x1f600, 0x1d49c, 0x10ffff, 0xe000, 0xfffd, 0xffff, 0xfdd0, 0x22, 0x27, 0x5c, 0x25, 0x24, 0x5b, 0x5d, 0x3d, 0x3b, 0x23]

def passwords_for(cps, dominant=None):
    out = []
    for cp in cps:
        ch = chr(cp)
        if dominant is not None and cp == dominant:
            # this character's values are the most frequent of their files, i.e. they sit on the first line
            out += [ch, ch + 'a', 'a' + ch, ch + ch, ch + ' '] * 4
        out += [ch, ch + 'a', 'a' + ch, 'a' + ch + 'b', ch + ch, 'ab1' + ch, ch + ' ', ' ' + ch]
    return out

def gen_cases(rng, tier, shard):
    i, n = shard
    cases = []
    if tier == 'quick':
        for enc in ['utf-8', 'latin-1', 'cp1252', 'cp1251']:
            cps = list(SPECIAL) + [rng.randrange(0x20, 0x3000) for _ in range(250)] + [rng.randrange(0x3000, 0x110000) for _ in range(100)]
            rng.shuffle(cps)
            for b in range(0, len(cps), 80):
                cases.append({'cps': cps[b:b + 80], 'encoding': enc, 'ngram': rng.choice([2, 3]), 'coverage': rng.choice([0.6, 1.0])})
        # first-line placement: each of these characters in turn is the most frequent value of its files
        for cp in [0xfeff, 0x20, 0xa0, 0x3000, 0x200b, 0x22, 0x23, 0x3b, 0x5b, 0x25, 0x2000, 0x1680, 0x27, 0x5c]:
            cases.append({'cps': [cp] + rng.sample(SPECIAL, 6), 'dominant': cp, 'encoding': 'utf-8', 'ngram': 2, 'coverage': rng.choice([0.6, 1.0])})
        # code pages holding an upper-case letter without its lower-case form (cp437: GAMMA THETA OMEGA): the lower-cased word cannot be written in the
        # training encoding; the trainer refuses today - whatever it does, what it writes must read back under the encoding the ruleset declares
        cases.append({'cps': [0x393, 0x398, 0x3a9, 0xe9, 0xf1] + rng.sample(SPECIAL, 4), 'encoding': 'cp437', 'ngram': 2, 'coverage': 0.6})
        cases.append({'cps': [0x3a9, 0xe5] + rng.sample(SPECIAL, 4), 'encoding': 'mac_roman', 'ngram': 2, 'coverage': 1.0})
        # a ruleset declared utf-8-sig (what chardet reports for a list saved with a byte order mark), small and with very long terminal lists
        cases.append({'cps': rng.sample(SPECIAL, 6) + [0xfeff, 0xe9], 'encoding': 'utf-8-sig', 'ngram': 2, 'coverage': 0.6})
        cases.append({'cps': [0xe9, 0x20], 'encoding': rng.choice(['utf-8', 'latin-1']), 'ngram': 2, 'coverage': 0.6, 'long_runs': True})
        # multi-byte encodings, among them a stateful 7-bit one (ISO-2022-JP: what chardet reports for Japanese mail-style text; non-ASCII text is written with
        # ASCII bytes between escape sequences): kana, kanji, full-width forms next to ASCII
        cjk = [0x3055, 0x304f, 0x3089, 0x6771, 0x4eac, 0x30c6, 0x30b9, 0x30c8, 0xff21, 0x3000, 0x5c, 0x7e, 0x4e2d, 0x6587]
        for enc in ['iso2022_jp', rng.choice(['shift_jis', 'euc_jp', 'gbk', 'big5'])]:
            cases.append({'cps': cjk + rng.sample(SPECIAL, 4), 'encoding': enc, 'ngram': 2, 'coverage': 0.6})
        for enc in ['utf-8-sig', rng.choice(['utf-8', 'cp1251', 'latin-1'])]:
            cases.append({'cps': [0xe9, 0x44f], 'encoding': enc, 'ngram': 2, 'coverage': 0.6, 'big_lists': rng.getrandbits(32),
                          'n_digits': rng.choice([12000, 21000, 33000]), 'n_alpha': rng.choice([0, 10500])})
        return [c for k, c in enumerate(cases) if k % n == i]
    allc = [c for c in range(0x0, 0x10000) if not (0xd800 <= c < 0xe000)]
    astral = [rng.randrange(0x10000, 0x110000) for _ in range(4000)] if i == 0 else []
    batches = [allc[b:b + 200] for b in range(0, len(allc), 200)]
    mine = [b for k, b in enumerate(batches) if k % n == i] + [astral[b:b + 200] for b in range(0, len(astral), 200)]
    for b in mine:
        cases.append({'cps': b, 'encoding': 'utf-8', 'ngram': rng.choice([2, 3]), 'coverage': 0.6})
    for k, cp in enumerate(SPECIAL):
        if k % n == i and not (0xd800 <= cp < 0xe000):
            cases.append({'cps': [cp] + rng.sample(SPECIAL, 6), 'dominant': cp, 'encoding': 'utf-8', 'ngram': 2, 'coverage': 0.6})
    for k, enc in enumerate(['latin-1', 'cp1252', 'cp1251', 'iso-8859-7', 'cp437', 'koi8-r', 'iso-8859-15', 'cp1250']):
        if k % n != i:
            continue
        every = []
        for b in range(0x20, 0x100):          # every character the single-byte encoding can represent
            try:
                every.append(ord(bytes([b]).decode(enc)))
            except UnicodeDecodeError:
                pass
        for part in (every[:120], every[120:]):
            cases.append({'cps': list(SPECIAL) + part, 'encoding': enc, 'ngram': 2, 'coverage': 0.6})
    return cases

def flat(section):
    return [(v, g['prob']) for g in section for v in g['values']]

def check_case(run, case):
    enc = case['encoding']
    pws = []
    for pw in passwords_for([c for c in case['cps'] if not (0xd800 <= c < 0xe000)], case.get('dominant')):
        try:
            pw.encode(enc)
        except UnicodeEncodeError:
            continue
        pws.append(pw)
    if not pws:
        run.inconc('no encodable password in batch'); return
    if case.get('long_runs'):
        # runs of a thousand and more characters of one class: length labels with four digits (D1000, O1203, A1100) in base structures and file names
        pws += ['7' * 1000 + 'abc', '7' * 1000 + 'abc', '!' * 1203 + 'a', 'x' + '9' * 1024, 'q' * 1100 + '1']
    if case.get('big_lists'):
        # terminal lists of many thousand values (a leaked list easily has 10^5 distinct six-digit strings): whatever the writer does in blocks, line 10 001
        # (or byte 65 537) of a file reads back like line 2
        import random as _r
        r2 = _r.Random(case['big_lists'])
        pws += ['%06d' % v for v in r2.sample(range(10 ** 6), case['n_digits'])]
        pws += [''.join(t) for t in r2.sample(list(itertools.product('abcdefghijklmnop', repeat=4)), case['n_alpha'])]
    pws += ['plain1', 'word', 'word', 'pass12', 'pass12!', 'iloveyou1234567!!', 'Sunshine20011234567']            # some ordinary structure around it
    pws += ['bob@gmail.com', 'Alice@Mail.RU', 'bob@gmail.com1', 'www.google.com', 'http://www.site.net/x', 'x.org', 'x.org']     # e-mail provider / website host lists (PRINCE terminals E / W)
    data = b''.join(b'$HEX[' + p.encode(enc).hex().encode() + b']\n' for p in pws)
    name, path = repo.new_rules_dir('c07')
    try:
        res = trainer.train(data, path, encoding=enc, coverage=case['coverage'], ngram=case['ngram'], alphabet_size=5000, max_len=21)
        if not res.ok:
            run.ev('trainings_not_completed'); run.inconc('training did not complete: ' + repr(res.exc)); return
        run.ev('trainings')
        accepted = res.passes[0]['yielded']
        expect_ok = [p for p in pws if oracles.valid_password(p)]
        if accepted != expect_ok:
            d = [p for p in accepted if p not in set(expect_ok)][:3], [p for p in expect_ok if p not in set(accepted)][:3]
            run.violation(f'input filter: accepted passwords differ from the reference validity predicate (wrongly accepted {d[0]!r}, wrongly rejected {d[1]!r})', case); return
        run.ev('passwords_accepted', len(accepted))
        t = trained.tally(res.segmented)
        disk = oracles.Disk(path)
        # 1. disk == tally (values as strings)
        fam = {'A': 'Alpha', 'C': 'Capitalization', 'D': 'Digits', 'O': 'Other', 'K': 'Keyboard'}
        for lab, rows in disk.rows.items():
            if lab[0] in fam:
                mine = t[fam[lab[0]]].get(int(lab[1:]), Counter())
                if lab[0] == 'A':
                    if Counter(v.replace('ς', 'σ') for v, _ in rows) != Counter(w.replace('ς', 'σ') for w in mine):
                        run.violation(f'{lab}: values on disk differ from the values the trainer segmented', case,
                                      observed=sorted(set(v for v, _ in rows) ^ set(mine))[:6]); return
                elif Counter(v for v, _ in rows) != Counter(list(mine)):
                    bad = sorted(set(v for v, _ in rows) ^ set(mine))[:6]
                    run.violation(f'{lab}: values on disk (read back LF-only, split at the last TAB) differ from the values the trainer segmented: {bad!r}', case, observed=bad); return
                if any(len(v) != int(lab[1:]) for v, _ in rows):
                    run.violation(f'{lab}: a value on disk does not have the length its file name states', case, observed=[v for v, _ in rows if len(v) != int(lab[1:])][:4]); return
        for folder, (directory, names) in disk.filelists.items():
            if sorted(names) != sorted(os.listdir(os.path.join(path, directory))):
                run.violation(f'config.ini lists {sorted(names)} for {directory}/ but the directory holds {sorted(os.listdir(os.path.join(path, directory)))}', case); return
        run.ev('disk_vs_tally')
        # 2. guesser loader
        try:
            pcfg = monitors.load_pcfg(path, 'x')
        except Exception as e:
            run.violation(f'guesser loader raised {type(e).__name__} ({e!s:.120}) on a ruleset (encoding {enc}) the trainer has just written', case); return
        diag = pcfg._verif_load_stderr + pcfg._verif_load_stdout
        if 'Ignor' in diag or 'xception' in diag or 'weird' in diag:
            run.violation('guesser loader printed a diagnostic while loading a ruleset the trainer has just written', case, observed=diag[-400:]); return
        for lab, rows in disk.rows.items():
            if lab[0] in 'ACDOKXY' or lab in ('E', 'W'):       # E / W: e-mail providers and website hosts (PRINCE terminals)
                if lab in ('E', 'W') and rows:
                    run.ev('email_website_tables_compared')
                got = flat(pcfg.grammar.get(lab, []))
                exp = [(v, float(p)) for v, p in rows]
                if got != exp:
                    i = next((i for i, (a, b) in enumerate(zip(got, exp)) if a != b), min(len(got), len(exp)))
                    run.violation(f'guesser loader: table {lab} differs from the file ({len(got)} vs {len(exp)} entries; first difference at {i})', case,
                                  observed=got[i:i + 2], expected=exp[i:i + 2]); return
        gb = [(''.join(r for r in b['replacements'] if r[0] != 'C'), b['prob']) for b in pcfg.base]
        if gb != [(s, float(p)) for s, p in disk.base_rows['Grammar']]:
            run.violation('guesser loader: base structures differ from Grammar/grammar.txt', case, observed=gb[:4]); return
        run.ev('guesser_loader_compared')
        # 3. scorer loader
        repo.scratch()
        from lib_scorer.pcfg_password_scorer import PCFGPasswordScorer
        from lib_scorer.grammar_io import load_grammar as scorer_load
        sc = PCFGPasswordScorer()
        err = io.StringIO()
        with contextlib.redirect_stderr(err), contextlib.redirect_stdout(err):
            ok = scorer_load(sc, path)
        if not ok:
            run.violation('scorer loader failed on a ruleset the trainer has just written', case, observed=err.getvalue()[-300:]); return
        tables = {'A': sc.count_alpha, 'C': sc.count_alpha_masks, 'D': sc.count_digits, 'O': sc.count_other, 'K': sc.count_keyboard}
        for lab, rows in disk.rows.items():
            exp = {v: float(p) for v, p in rows}
            if lab[0] in tables:
                got = dict(tables[lab[0]].get(int(lab[1:]), {}))
            elif lab == 'Y1':
                got = dict(sc.count_years)
            elif lab == 'X1':
                got = dict(sc.count_context_sensitive)
            else:
                continue
            if got != exp:
                bad = sorted(set(got) ^ set(exp))[:4]
                run.violation(f'scorer loader: table {lab} differs from the file: {bad!r}', case, observed=bad); return
        if dict(sc.count_base_structures) != {s: float(p) for s, p in disk.base_rows['Grammar']}:
            run.violation('scorer loader: base structures differ from Grammar/grammar.txt', case); return
        run.ev('scorer_loader_compared')
        # 4. OMEN: three readers
        model = oracles.OmenModel(os.path.join(path, 'Omen'))
        # what the trainer held in memory when it wrote the OMEN files is what a reader of the files gets back (n-gram text and level)
        tr = res.omen_trainer
        if tr is not None:
            tip = {k: d['ip_level'] for k, d in tr.grammar.items()}
            tcp = {k: {c: lv[0] for c, lv in d['next_letter'].items()} for k, d in tr.grammar.items() if d['next_letter']}
            if tip != model.ip or tcp != model.cp:
                bad = sorted(set(tip) ^ set(model.ip))[:4] or sorted(k for k in set(tcp) | set(model.cp) if tcp.get(k) != model.cp.get(k))[:4]
                run.violation(f'OMEN files: the n-grams / levels on disk (IP.level, CP.level) differ from what the trainer computed: {bad!r}', case, observed=bad); return
            if [lv[0] for lv in tr.ln_lookup] != model.ln:
                run.violation('OMEN files: LN.level differs from the length levels the trainer computed', case, observed=model.ln[:8]); return
            run.ev('omen_files_vs_trainer_state')
        from lib_guesser.omen.input_file_io import load_rules
        og = {}
        with contextlib.redirect_stderr(err), contextlib.redirect_stdout(err):
            okg = load_rules(os.path.join(path, 'Omen'), og)
        if not okg:
            run.violation('guesser OMEN loader failed', case, observed=err.getvalue()[-400:]); return
        gip = {g: l for l, gs in og['ip'].items() for g in gs}
        gcp = {ctx: {ch: l for l, chs in lv.items() for ch in chs} for ctx, lv in og['cp'].items()}
        if gip != model.ip or gcp != model.cp:
            bad = sorted(set(gip.items()) ^ set(model.ip.items()))[:4]
            run.violation('guesser OMEN loader: IP/CP tables differ from the files', case, observed=bad); return
        from lib_scorer.omen_scorer import OmenScorer
        with contextlib.redirect_stderr(err), contextlib.redirect_stdout(err):
            try:
                osc = OmenScorer(path, enc, 9)
            except Exception as e:
                run.violation(f'scorer OMEN loader raised {type(e).__name__}: {e!s:.150}', case); return
        scp = {}
        for g, l in osc.cp.items():
            scp.setdefault(g[:-1], {})[g[-1]] = l
        if osc.ip != model.ip or scp != model.cp or osc.ln[1:] != model.ln:
            bad = sorted(set(osc.ip.items()) ^ set(model.ip.items()))[:4]
            run.violation('scorer OMEN loader: IP/CP/LN tables differ from the files / from the guesser loader', case, observed=bad); return
        run.ev('omen_loaders_compared')
        nt = any((ord(c) > 127 or c.isspace()) for p in accepted for c in p)
        run.case(h([case['cps'], enc]) if nt else None)
        run.ev('code_points', len(case['cps']))
        for p in accepted:
            for c in p:
                if ord(c) in SPECIAL:
                    run.add_to_set('special_code_points_accepted_and_round_tripped', 'U+%04X' % ord(c))
        if len(run.samples) < run.MAX_SAMPLES:
            run.sample({'encoding': enc, 'code_points': ['U+%04X' % c for c in case['cps'][:12]], 'accepted': len(accepted), 'rejected': len(pws) - len(accepted),
                        'files': sorted(disk.rows)[:10]})
    finally:
        repo.drop_rules(name)

def check_retrain(run, case):
    """The config's file lists must name exactly the files that exist also after re-training an existing rule directory with a list that lacks
    whole categories (two-step history)."""
    from . import c06
    from .. import trainlists
    first, second = case['first'], case['second']
    name, path, resA = trained.train_case(first, 'c07r')
    try:
        if not resA.ok:
            run.ev('trainings_not_completed'); run.inconc('training did not complete'); return
        # three-tool history: a copy of the ruleset is made with the project's own edit_rules.py --copy (no filter) before the original is trained again;
        # the copy is a ruleset of its own and must mean afterwards what it meant when it was made
        kept, kept_before = name + '_kept', None
        try:
            import edit_rules as er, io, contextlib
            with contextlib.redirect_stdout(io.StringIO()):
                er.edit_rules({'rule': name, 'copy': kept, 'rules_dir': os.path.join(repo.scratch(), 'Rules'), 'min_length': 0, 'max_length': 0, 'terminal_set': False})
            kept_before = c06.tree_digest(os.path.join(repo.scratch(), 'Rules', kept))
        except Exception:
            kept_before = None
        # history: a training run for the same rule name that does not get as far as saving (a list without a single valid password: every line holds a TAB).
        # The ruleset that is there is still a ruleset: its config lists name the files that exist and the guesser loads it
        bad = trainer.train(b'pass\tword1\nab\tcd\n\t\n', path, encoding=first['encoding'], coverage=first['coverage'], ngram=first['ngram'], alphabet_size=first['alphabet'],
                            max_len=first['max_len'])
        run.ev('retrainings_that_do_not_complete')
        if not bad.ok:
            try:
                disk0 = oracles.Disk(path)
            except FileNotFoundError as e:
                run.violation(f'after a training run for the same rule name that did not complete (no valid password in the list), the ruleset names a file that no longer exists: {os.path.basename(os.path.dirname(str(e.filename)))}/{os.path.basename(str(e.filename))}', case); return
            for letter, (directory, names) in disk0.filelists.items():
                have = sorted(os.listdir(os.path.join(path, directory))) if os.path.isdir(os.path.join(path, directory)) else []
                if sorted(names) != have:
                    run.violation(f'after a training run for the same rule name that did not complete (no valid password in the list), config.ini lists {sorted(names)} for {directory}/ '
                                  f'but the directory holds {have}', case); return
            try:
                monitors.load_pcfg(path, 'x')
            except Exception as e:
                run.violation(f'after a training run for the same rule name that did not complete, the guesser can no longer load the ruleset ({type(e).__name__}: {e!s:.100})', case); return
            run.ev('rulesets_intact_after_a_failed_retraining')
        data = trainlists.render_plain([(p, k) for p, k in second['items']], second['encoding'])
        resB = trainer.train(data, path, encoding=second['encoding'], coverage=second['coverage'], ngram=second['ngram'], alphabet_size=second['alphabet'],
                             max_len=second['max_len'])
        if not resB.ok:
            run.ev('trainings_not_completed'); run.inconc('training did not complete'); return
        disk = oracles.Disk(path)
        for letter, (directory, names) in disk.filelists.items():
            have = sorted(os.listdir(os.path.join(path, directory)))
            if sorted(names) != have:
                run.violation(f'after re-training an existing rule directory config.ini lists {sorted(names)} for {directory}/ but the directory holds {have}', case); return
        if kept_before is not None:
            kept_after = c06.tree_digest(os.path.join(repo.scratch(), 'Rules', kept))
            if kept_after != kept_before:
                diff = sorted(k for k in set(kept_before) | set(kept_after) if kept_before.get(k) != kept_after.get(k))
                run.violation(f'a copy made with edit_rules.py --copy changed when the ruleset it was copied from was trained again: {diff[:6]}', case, observed=diff); return
            kdisk = oracles.Disk(os.path.join(repo.scratch(), 'Rules', kept))
            for letter, (directory, names) in kdisk.filelists.items():
                have = sorted(os.listdir(os.path.join(repo.scratch(), 'Rules', kept, directory)))
                if sorted(names) != have:
                    run.violation(f'copy of a ruleset, after its original was re-trained: config.ini lists {sorted(names)} for {directory}/ but the directory holds {have}', case); return
            run.ev('copies_checked_after_retraining_the_original')
        run.ev('retrainings_checked')
        run.case(h(['retrain', first['items'], second['items']]))
    finally:
        repo.drop_rules(name)
        repo.drop_rules(name + '_kept')

def check_locale(run, case):
    """The ruleset's own metadata may hold non-ASCII text (--comments, the name of the training file): config.ini is written by the trainer and read by the
    guesser and the scorer, each in a process of its own - here processes started under the C / POSIX locale (where Python switches to UTF-8 mode)."""
    from .. import cli
    name, path = repo.new_rules_dir('c07loc')
    try:
        pws = ['password1', 'dragon12', 'señor99', 'love!', 'summer2012', 'password1', 'iloveyou']
        data = b''.join(p.encode('utf-8') + b'\n' for p in pws)
        res = trainer.train(data, path, encoding='utf-8', coverage=0.6, ngram=3, alphabet_size=100, max_len=21, comments=case['comments'])
        if not res.ok:
            run.ev('trainings_not_completed'); run.inconc('training did not complete'); return
        tf = os.path.join(repo.scratch(), f'c07loc_{os.getpid()}.txt')
        open(tf, 'wb').write(b'password1\nlove!\nzzz\n')
        try:
            for loc in case['locales']:
                env = {'LC_ALL': loc, 'LANG': loc}
                out, err, rc, to = cli.run_cli('pcfg_guesser.py', ['-r', name, '-s', 'c07loc', '-n', '4'], stdin_mode='devnull', env=env, timeout=60)
                run.ev('tool_runs_under_another_locale')
                if not to and out.count(b'\n') != 4:          # the exit status is not judged (CPython may abort at shutdown while the keyboard thread is blocked)
                    run.violation(f'pcfg_guesser.py cannot use a ruleset whose config.ini holds the comment {case["comments"]!r} under LC_ALL={loc} (rc {rc}, {out.count(10)} guesses of 4)', case,
                                  observed=err[-300:].decode('utf-8', 'replace')); return
                out, err, rc, to = cli.run_cli('password_scorer.py', ['-r', name, '-i', tf], stdin_mode='devnull', env=env, timeout=60)
                run.ev('tool_runs_under_another_locale')
                recs = [l for l in out.decode('utf-8', 'replace').split('\n') if l.count('\t') == 3]
                if not to and len(recs) != 3:
                    run.violation(f'password_scorer.py cannot use a ruleset whose config.ini holds the comment {case["comments"]!r} under LC_ALL={loc} (rc {rc}, {len(recs)} records of 3)', case,
                                  observed=err[-300:].decode('utf-8', 'replace')); return
            run.ev('locale_cases')
            run.case(h(['locale', case['comments'], case['locales']]))
        finally:
            os.remove(tf)
            for ext in ('.sav', '.omn'):
                try:
                    os.remove(os.path.join(repo.scratch(), 'c07loc' + ext))
                except FileNotFoundError:
                    pass
    finally:
        repo.drop_rules(name)

def run(run, rng):
    run.required_events = ['trainings', 'disk_vs_tally', 'guesser_loader_compared', 'scorer_loader_compared', 'omen_loaders_compared']
    run.min_distinct = 4
    run.assumptions = ['"what is on disk" = decode with the ruleset encoding, split on LF only, split each line at the last TAB',
                       'passwords are delivered as $HEX[] so every character reaches the validity filter intact', 'ASCII-compatible encodings only']
    cases = gen_cases(rng, run.tier, run.shard)
    if run.tier == 'thorough':
        run.exhaustive = True
        run.extra['exhaustive_scope'] = 'all 63488 BMP scalar values (8 placements each) under utf-8; other encodings and astral code points are sampled'
    for case in cases:
        run.guard(case, check_case, seconds=300)
    if run.shard[0] == 1 % run.shard[1]:
        run.guard({'comments': rng.choice(['contraseñas de prueba', 'пароли 2024', 'liste générée ☃']), 'locales': ['C', rng.choice(['POSIX', 'C.UTF-8'])], 'locale': True},
                  check_locale, seconds=300)
    if run.shard[0] == 0:
        from . import c06
        for _ in range(3 if run.tier == 'quick' else 25):
            run.guard(c06.gen_retrain_case(rng), check_retrain, seconds=300)

def replay(run, case):
    if case['case'].get('locale'):
        check_locale(run, case['case'])
    elif case['case'].get('retrain'):
        check_retrain(run, case['case'])
    else:
        check_case(run, case['case'])
