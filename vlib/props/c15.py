"""C15 — a Markov level interrupted mid-way resumes at the very next guess (crash-point enumeration inside OMEN levels)."""
import os
from collections import Counter
from .. import repo, rulesets, oracles, monitors, gstream, session
from ..evidence import timebox, CaseTimeout, h
from .c08 import judge

LEVEL = 'fault_enumeration'
RULE = ('generated rulesets with one Markov structure whose 1-3 OMEN levels (2-300 strings each, generated models) interleave with ordinary structures, '
        'M first / middle / last; uninterrupted guess stream U via the real main(); then for every Markov level and every position j (all j for levels '
        '<= 40 strings, else first/last/length- and initial-n-gram boundaries + a sample) q is delivered to the real keypress thread right after the j-th '
        'guess, the session is resumed with --load, and 0-3 further quit/resume cycles follow at random later points (inside the resumed remainder, in '
        'ordinary pre-terminals, in later levels). non-trivial = cut strictly inside a level (0<j<len); distinct by (ruleset hash, level, j, later cuts)')
SHARDS = {'quick': 4, 'thorough': 16}
N = {'quick': 10, 'thorough': 260}

def gen_case(rng):
    for _ in range(50):
        om = rulesets.gen_omen(rng, alphabet=rng.choice(['ab', 'abc', 'ab', 'xyя', 'abcd']))
        model = oracles.OmenModel(spec=om)
        try:
            lv = model.all_levels(12, cap=3000)
        except OverflowError:
            continue
        good = [L for L, v in lv.items() if 2 <= len(v) <= 300]
        if good:
            break
    else:
        raise RuntimeError('no usable OMEN model')
    levels = rng.sample(good, min(len(good), rng.randint(1, 3)))
    spec = rulesets.gen_spec(rng, with_m=False, n_base=rng.randint(1, 3), max_len=2, min_groups=2, max_groups=4,
                             pool=rng.choice(['decimal', 'counts', 'dyadic', 'random']))
    place = rng.choice(['first', 'middle', 'middle', 'last'])
    # level probabilities: spread so that M pre-terminals interleave with ordinary ones; 'last' makes one level the final pre-terminal
    lp = sorted([rng.choice([0.9, 0.5, 0.25, 0.1, 0.01, 1e-4]) * (1 + i * 1e-3) for i in range(len(levels))], reverse=True)
    if place == 'last':
        lp[-1] = 1e-12
    if place == 'first':
        lp[0] = 1.0
    if len(lp) >= 2 and rng.random() < 0.25:
        lp[1] = lp[0]                                    # two levels with equal probability
    om['probs'] = [[l, p] for l, p in zip(levels, lp)]
    om['keyspace'] = [[l, len(lv.get(l, []))] for l in range(0, 19)]
    if rng.random() < 0.5:
        # omen_keyspace.txt is informational (status report); rulesets of older trainers, hand-trimmed models or the last counted level carry numbers that
        # are too small or too large, or lack levels
        om['keyspace'] = [[l, max(0, k + rng.choice([-3, -1, 1, 5, -k, -(k // 2), k]))] for l, k in om['keyspace'] if rng.random() < 0.9]
    spec['omen'] = om
    pm = rng.choice([0.5, 0.3, 0.25, 0.1])
    spec['base'].insert(rng.randrange(len(spec['base']) + 1), ['M', pm])
    return {'spec': spec, 'hseed': rng.getrandbits(32)}

def pops_with_guesses(res):
    out = []
    for i, p in enumerate(res.pops):
        end = res.pops[i + 1]['first_guess'] if i + 1 < len(res.pops) else len(res.guesses)
        out.append((p['key'] + (p['base_prob'],), p['prob'], res.guesses[p['first_guess']:end]))
    return out

def preamble(res):
    return res.guesses[:res.pops[0]['first_guess']] if res.pops else list(res.guesses)

def classify(info):
    return None

def one_history(run, case, name, sn, U, Ug, m, j, later, rng, interfere=None):
    """Deliver q right after the j-th guess of pop m (a Markov level), resume, then apply `later` further cuts (guess counts within each
    resumed run).  Where each run really stopped is read off its recorded stream, so a quit that is honoured a little later is not an error."""
    levels = {p[0]: p[2] for p in U if p[0][0] == ('M',)}
    info = {'interrupted_is_final_preterminal': False}
    where = f'level at pop {m} (prob {U[m][1]!r}, {len(U[m][2])} strings), q after its guess j={j}, later cuts {later}'
    session.drop_session(sn)
    owed, hist, runs, strictly_inside = [], [], [], False
    cuts = [('first', None)] + [('later', c) for c in later] + [('final', None)]
    for ci, (kind, cut) in enumerate(cuts):
        fired = {}
        def trig(ev, ctx, kind=kind, cut=cut, fired=fired):
            if 'x' in fired:
                return
            if ev[0] in ('POP', 'CREATE'):
                # the quit arrives right after a pre-terminal was popped (later cut ['pop', k]: the loop sees the flag and saves), or after the loop has looked
                # at the flag and before the first guess of the pre-terminal (j == 0 / later cut ['create', k])
                if (kind == 'first' and j == 0 and ev[0] == 'CREATE' and ev[1] - 1 == m) or \
                   (kind == 'later' and isinstance(cut, list) and ev[0] == cut[0].upper() and ev[1] == cut[1]):
                    fired['x'] = ctx.deliver('q')
                return
            if ev[0] != 'GUESS':
                return
            if (kind == 'first' and j and ev[3] == m and ev[4] == j) or (kind == 'later' and isinstance(cut, int) and ev[1] == cut):
                fired['x'] = ctx.deliver('q')
        if ci == 1 and interfere is not None:
            # another session on the same ruleset, in the same directory, with a name that differs only in its last letter, is quit inside a Markov
            # level between this session's quit and its resume: the two sessions have nothing to do with each other
            m2, j2 = interfere
            sib = sn[:-1] + ('s' if not sn.endswith('s') else 'a')
            f2 = {}
            def trig2(ev, ctx, f2=f2):
                if 'x' not in f2 and ev[0] == 'GUESS' and ev[3] == m2 and ev[4] == j2:
                    f2['x'] = ctx.deliver('q')
            try:
                session.run_main(['-r', name, '-s', sib], trigger=trig2)
                run.ev('sibling_sessions_interleaved')
            finally:
                session.drop_session(sib)
        pre_typed = None
        if kind == 'later' and isinstance(cut, list) and cut[0] == 'start':
            # the quit request is already waiting on standard input when the resumed run starts (q typed ahead, `echo q | pcfg_guesser --load`)
            pre_typed = session.Stdin()
            pre_typed.feed('q')
            fired['x'] = True
            run.ev('resumed_runs_with_a_quit_typed_ahead')
        r = session.run_main(['-r', name, '-s', sn] + (['--load'] if ci else []), trigger=trig, stdin=pre_typed)
        run.ev('main_runs')
        if ci:
            run.ev('resumes')
        if fired.get('x') is False:
            run.inconc('q not acted on'); return True
        if r.exc is not None:
            run.violation(f'{where}: main() raised {r.exc!r} in cycle {ci}', case, observed=r.stderr[-600:], mech=classify(info)); return False
        quit_ = bool(fired.get('x')) and 'Done processing' not in r.stderr
        pg_ = pops_with_guesses(r)
        if fired.get('x') and not quit_ and pg_ and pg_[-1][0][0] == ('M',) and pg_[-1][2] != levels.get(pg_[-1][0]):
            info['interrupted_is_final_preterminal'] = True          # quit landed inside the Markov level of the final pre-terminal
        # a quit inside the Markov level of the FINAL pre-terminal leaves nothing to pop afterwards: the last pop is the interrupted level itself
        has_x = quit_ and bool(pg_) and len(pg_[-1][2]) == 0
        pre = preamble(r)
        hist += r.guesses
        # 1. what is emitted before the first pre-terminal of a resumed run must be the owed remainder, from its first string on
        if pre != owed[:len(pre)]:
            miss = list((Counter(owed) - Counter(pre)).elements())[:5]
            extra = list((Counter(pre) - Counter(owed)).elements())[:5]
            run.violation(f'{where}: cycle {ci}: resumed session does not continue with exactly the remaining strings of the interrupted level '
                          f'(emitted {len(pre)} before the first pre-terminal, {len(owed)} owed; missing {miss}, extra {extra})', case,
                          observed=pre[:10], expected=owed[:10], mech=classify(info)); return False
        if len(pre) < len(owed):
            if quit_ and len(r.guesses) == len(pre):
                owed = owed[len(pre):]                               # interrupted again inside the remainder
                runs.append((r, True, has_x)); run.ev('requit_inside_remainder')
                strictly_inside = True
                continue
            run.violation(f'{where}: cycle {ci}: {len(owed) - len(pre)} remaining string(s) of the interrupted level were skipped', case,
                          observed=pre[-5:], expected=owed[len(pre):len(pre) + 5], mech=classify(info)); return False
        owed = []
        # 2. every Markov level started in this run is generated from its first string, in order; the last one may be cut short by the quit
        for i, (key, prob, gs) in enumerate(pg_):
            if key[0] != ('M',):
                continue
            if has_x and i == len(pg_) - 1:
                if gs:
                    run.violation(f'{where}: cycle {ci}: guesses were generated for the pre-terminal popped after the quit', case, observed=gs[:5], mech=classify(info)); return False
                continue                                             # popped when the quit was noticed: saved, not generated
            full = levels.get(key)
            if full is None:
                run.violation(f'{where}: unknown Markov pre-terminal {key}', case, mech=classify(info)); return False
            cut_short = (has_x and i == len(pg_) - 2) or (quit_ and not has_x and i == len(pg_) - 1)
            if gs != (full[:len(gs)] if cut_short else full) and not (i == len(pg_) - 1 and not quit_ and info['interrupted_is_final_preterminal']):
                run.violation(f'{where}: cycle {ci}: Markov level {key} was not generated completely / from its first string', case,
                              observed=gs[:8], expected=full[:8], mech=classify(info)); return False
            if cut_short:
                owed = full[len(gs):]
                if 0 < len(gs) < len(full):
                    strictly_inside = True
            if i == len(pg_) - 1 and not quit_ and info['interrupted_is_final_preterminal']:
                pass
        runs.append((r, quit_, has_x))
        if not quit_:
            break
    if runs[-1][1]:
        return True          # history ended on a quit (cuts exhausted): nothing more to judge
    # 3. whole-history accounting at pre-terminal level (C08 oracle) and at guess level
    Upk = [(p[0], p[1]) for p in U]
    saved, rr = [], []
    for r, q, hx in runs:
        pk = [(p['key'] + (p['base_prob'],), p['prob']) for p in r.pops]
        rr.append((pk, q and hx and len(pk) > 0))
        if q:
            saved.append(pk[-1][1] if pk else (saved[-1] if saved else 1.0))
    if not judge(run, case, Upk, rr, saved, where, mech=classify(info)):
        return False
    need, have = Counter(Ug), Counter(hist)
    lost = need - have
    if lost:
        run.violation(f'{where}: {sum(lost.values())} guess(es) of the uninterrupted run never emitted', case,
                      observed=list(lost.elements())[:8], mech=classify(info)); return False
    allowed = Counter()
    for key, prob, gs in U:
        if prob in saved:
            allowed.update(gs * len(saved))
    surplus = have - need - allowed
    if surplus:
        run.violation(f'{where}: guesses repeated although their pre-terminal does not tie with any saved position', case,
                      observed=list(surplus.elements())[:8], mech=classify(info)); return False
    run.ev('histories')
    if strictly_inside:
        run.ev('histories_cut_strictly_inside_level')
    return True

def check_case(run, case, tier='quick'):
    import random
    rng = random.Random(case['hseed'])
    name, path = gstream.materialise(case['spec'], 'c15')
    # a third of the cases run with the temporary directory (TMPDIR) on another file system than the program and its session files
    import tempfile, shutil
    alt_tmp, old_tmp, old_env = (repo.other_filesystem_tmpdir() if rng.random() < 0.35 else None), tempfile.tempdir, os.environ.get('TMPDIR')
    if alt_tmp:
        tempfile.tempdir = alt_tmp; os.environ['TMPDIR'] = alt_tmp
        run.ev('cases_with_tmpdir_on_another_file_system')
    sn = session.new_session_name('c15') + rng.choice(['a', 's', 'v', '.s', 'x', '_1', '.sav', '.saved.1', '.sav.bak'])       # session names are free text: also ones ending in the letters of '.sav'
    try:
        Ures = session.run_main(['-r', name, '-s', sn])
        if Ures.exc is not None or not Ures.pops:
            run.violation(f'uninterrupted run failed: {Ures.exc!r}', case, observed=Ures.stderr[-400:]); return
        U = pops_with_guesses(Ures)
        Ug = list(Ures.guesses)
        run.ev('GUESS', len(Ug)); run.ev('POP', len(U))
        mk = [i for i, p in enumerate(U) if p[0][0] == ('M',)]
        # cross-check the level contents with the brute-force model, so "remaining strings of that level" is anchored outside the tool
        model = oracles.OmenModel(os.path.join(path, 'Omen'))
        for i in mk:
            L = int(case['spec']['omen']['probs'][U[i][0][1][0]][0])
            if Counter(U[i][2]) != Counter(model.enumerate_level(L)):
                run.violation(f'uninterrupted run: Markov level {L} differs from brute-force enumeration', case); return
        for m in mk:
            n = len(U[m][2])
            if n == 0:
                continue
            if n <= 40 or tier == 'thorough' and n <= 120:
                js = list(range(0, n + 1))
            else:
                lv = U[m][2]
                bnd = {1, 2, n - 1, n}
                for t in range(1, n):
                    if len(lv[t]) != len(lv[t - 1]) or lv[t][:1] != lv[t - 1][:1]:
                        bnd.update({t, t + 1})
                js = sorted(x for x in bnd | {0} | set(rng.sample(range(1, n + 1), 12)) if 0 <= x <= n)
            for j in js:
                ncyc = rng.choice([0, 0, 1, 1, 2, 3])
                later = []
                for c in range(ncyc):
                    later.append(rng.randint(1, max(1, min(12, len(Ug)))) if rng.random() < 0.7 else [rng.choice(['pop', 'create', 'create', 'start']), rng.randint(1, 3)])
                interfere = None
                if rng.random() < 0.25:
                    m2 = rng.choice(mk)
                    if len(U[m2][2]) >= 2:
                        interfere = (m2, rng.randint(1, len(U[m2][2]) - 1))
                ok = one_history(run, case, name, sn, U, Ug, m, j, later, rng, interfere=interfere)
                nt = 0 < j < n
                if j == 0:
                    run.ev('histories_quit_before_first_guess_of_the_level')
                run.case(h([case['spec']['omen'], case['spec']['base'], m, j, later]) if nt else None)
                run.add_to_set('cut_points', h([case['hseed'], m, j]))
                if not ok and run.violations[-1]['mech'] is None:
                    return
        run.sample({'base': case['spec']['base'], 'omen_probs': case['spec']['omen']['probs'], 'U_guesses': len(Ug),
                    'markov_pops': [[i, len(U[i][2])] for i in mk], 'U_head': Ug[:10]})
    finally:
        session.drop_session(sn)
        repo.drop_rules(name)
        if alt_tmp:
            tempfile.tempdir = old_tmp
            if old_env is None:
                os.environ.pop('TMPDIR', None)
            else:
                os.environ['TMPDIR'] = old_env
            shutil.rmtree(alt_tmp, ignore_errors=True)

def markov_stress_spec(rng):
    """One big OMEN level (tens of thousands of strings) between ordinary structures; the run ends with a non-Markov pre-terminal."""
    import itertools
    alphabet = 'abcde'
    ip = [[0, c] for c in alphabet]
    cp = [[rng.choice([0, 0, 1]), a + b] for a in alphabet for b in alphabet]
    ln = [10, 10, 10, 10, 10, 1, 0, 1]
    om = dict(ngram=2, ip=ip, cp=cp, ln=ln, probs=[[2, 0.3], [3, 0.2], [4, 0.1]], keyspace=[[l, 1] for l in range(19)])
    d2 = ['%02d' % i for i in range(60)]
    rows = [[v, 0.5 / 30] for v in d2[:30]] + [[v, 1e-9] for v in d2[30:]]
    return {'encoding': 'utf-8', 'uuid': 'mstress-%08x' % rng.getrandbits(32), 'base': [['M', 0.5], ['D2', 0.5]], 'prince': [], 'terms': {'D2': rows}, 'omen': om}

def run(run, rng):
    run.required_events = ['main_runs', 'resumes', 'histories', 'histories_cut_strictly_inside_level', 'requit_inside_remainder', 'histories_quit_before_first_guess_of_the_level']
    run.min_distinct = 20
    run.assumptions = ['the remainder must come back in the order of the uninterrupted run (the generator is deterministic per C10)',
                       'a full replay of a level is tolerated only when its probability equals a saved position (C08 tie allowance)',
                       'levels of 2-300 strings; models from the C10 generator']
    for i in range(N[run.tier]):
        case = gen_case(rng)
        run.guard(case, check_case, run.tier, seconds=300)
    # real processes, real timing: q typed at a random moment while a large OMEN level is being generated, then --load (C08's stream accounting)
    from .c08 import check_cli_stress
    nstress = (1 if run.shard[0] == 0 else 0) if run.tier == 'quick' else 2
    for i in range(nstress):
        run.guard({'spec': markov_stress_spec(rng), 'hseed': rng.getrandbits(32), 'stress': True, 'label': 'markov-cli'}, check_cli_stress, seconds=900)

def replay(run, case):
    if case['case'].get('stress'):
        from .c08 import check_cli_stress
        check_cli_stress(run, case['case'])
    else:
        check_case(run, case['case'], 'thorough')
