"""C06 — the saved grammar is the relative-frequency model of the segmentation; coverage arithmetic; determinism."""
import os, json, hashlib, shutil
from collections import Counter
from .. import repo, oracles, trained, trainlists, cli, trainer
from ..evidence import h

LEVEL = 'exploration'
RULE = ('training lists as in C03 plus lists where a length class has one item, all counts tie, or e-mail/URL structures dominate; coverage in '
        '{0, 0.1, 0.5, 0.6, 0.999, 1}; the SEGMENTED events of the real parser are tallied by the harness and compared with every file the real trainer wrote '
        '(values, count/total probabilities, order, sums, Markov pseudo-count, raw vs supported structures, config file lists); determinism: the real '
        'trainer.py CLI run in two fresh processes with different PYTHONHASHSEED must write byte-identical trees apart from the uuid line. '
        'non-trivial = list with >=2 length classes and a probability tie or an unsupported structure; distinct by hash(list, options)')
SHARDS = {'quick': 4, 'thorough': 16}
N = {'quick': 60, 'thorough': 1500}
DET = {'quick': 2, 'thorough': 12}

FOLDERS = {'Alpha': 'A', 'Capitalization': 'C', 'Digits': 'D', 'Other': 'O', 'Keyboard': 'K'}

def gen_case(rng):
    # utf-8-sig (what `-e` auto-detection reports for a list saved as "UTF-8 with BOM"): the trainer's side of such a ruleset is judged here; the other tools
    # cannot load it (recorded assumption), so the encoding appears in C06 only
    case = trained.gen_train_case(rng, encodings=['utf-8', 'utf-8', 'utf-8', 'latin-1', 'cp1251', 'cp1252', 'ascii', 'iso-8859-7', 'utf-8-sig', 'cp1254', 'cp1254'],
                                  coverages=(0, 0.1, 0.5, 0.6, 0.999, 1, 1.0, 0.3, 0.9999999999, 1 - 2.0 ** -40, 1e-12), max_len_choices=(21, 21, 9))
    cls = rng.random()
    if cls < 0.15:      # all counts tie
        case['items'] = [[p, 1] for p, _ in case['items']]
    elif cls < 0.3:     # unsupported structures dominate
        enc = case['encoding']
        extra = [[e, rng.choice([2, 3, 5])] for e in rng.sample(trainlists.EMAILS + trainlists.SITES, 4)]
        case['items'] = extra + case['items'][:3]
    return case

def compare_counter(run, case, what, rows, counter):
    """rows: [(value, probtext)] from disk; counter: my tally."""
    vals = [v for v, p in rows]
    if Counter(vals) != Counter(list(counter)):
        dup = [v for v, n in Counter(vals).items() if n > 1][:3]
        miss = [v for v in counter if v not in vals][:3]
        extra = [v for v in vals if v not in counter][:3]
        run.violation(f'{what}: listed values differ from the items the segmentation produced (duplicated {dup}, missing {miss}, foreign {extra})', case,
                      observed=vals[:8], expected=sorted(counter)[:8]); return False
    total = sum(counter.values())
    s = 0.0
    prev = None
    for v, p in rows:
        f = float(p)
        exp = counter[v] / total
        if abs(f - exp) > 1e-12 * max(exp, 1e-300):
            run.violation(f'{what}: probability of {v!r} is {p}, expected count/total = {counter[v]}/{total}', case, observed=p, expected=repr(exp)); return False
        if prev is not None and f > prev:
            run.violation(f'{what}: not ordered from most to least probable at {v!r}', case, observed=[r for r in rows[:6]]); return False
        prev = f
        s += f
    if rows and abs(s - 1.0) > 1e-9:
        run.violation(f'{what}: probabilities sum to {s!r}', case); return False
    run.ev('lists_compared')
    return True

def check_files(run, case, path, res):
    # the model is the model of THE LIST: every password the reader accepted (first pass) is segmented exactly once in the second pass
    seg_pw, acc_pw = Counter(pw for pw, _ in res.segmented), Counter(res.passes[0]['yielded'])
    if seg_pw != acc_pw:
        miss = list((acc_pw - seg_pw).elements())[:4]; extra = list((seg_pw - acc_pw).elements())[:4]
        run.violation(f'the grammar was not built from the passwords of the list: {sum((acc_pw - seg_pw).values())} accepted password(s) never segmented {miss}, '
                      f'{sum((seg_pw - acc_pw).values())} segmented but not in the list {extra} (N used for the Markov pseudo-count: {res.passes[0]["num_passwords"]})', case); return False
    t = trained.tally(res.segmented)
    disk = oracles.Disk(path)
    enc = disk.encoding
    for folder, letter in FOLDERS.items():
        mine = t[folder]
        listed = sorted(f for f in os.listdir(os.path.join(path, folder)))
        expect = sorted(f'{n}.txt' for n in mine)
        if listed != expect:
            run.violation(f'{folder}/: files on disk {listed} differ from the length classes the segmentation produced {expect}', case); return False
        conf = sorted(disk.filelists[letter][1])
        if conf != expect:
            run.violation(f'config.ini file list for {folder} ({conf}) does not name exactly the files that exist ({expect})', case); return False
        for n, ctr in mine.items():
            if folder == 'Alpha' and any('ς' in w or 'σ' in w for w in ctr):
                run.ev('alpha_lists_with_sigma_skipped')      # lower() of capital sigma depends on context: either spelling is the same word
                continue
            if not compare_counter(run, case, f'{folder}/{n}.txt', oracles.read_rows(os.path.join(path, folder, f'{n}.txt'), enc), ctr):
                return False
    for folder, key in (('Years', 'Years'), ('Context', 'Context')):
        if not compare_counter(run, case, f'{folder}/1.txt', oracles.read_rows(os.path.join(path, folder, '1.txt'), enc), t[key]):
            return False
    if not compare_counter(run, case, 'Prince/grammar.txt', oracles.read_rows(os.path.join(path, 'Prince', 'grammar.txt'), 'ascii'), t['prince']):
        return False
    if not compare_counter(run, case, 'Grammar/raw_grammar.txt', oracles.read_rows(os.path.join(path, 'Grammar', 'raw_grammar.txt'), 'ascii'), t['raw']):
        return False
    # ---- e-mail / website lists: the items are what the two detectors reported per password (recorded at their call in the parser)
    sens = bool(res.info.get('save_sensitive'))
    ew = [('Emails', 'email_providers.txt', 'providers', True), ('Emails', 'full_emails.txt', 'emails', sens),
          ('Websites', 'website_hosts.txt', 'hosts', True), ('Websites', 'website_prefixes.txt', 'prefixes', True), ('Websites', 'website_urls.txt', 'urls', sens)]
    for folder in ('Emails', 'Websites'):
        listed = sorted(os.listdir(os.path.join(path, folder)))
        expect = sorted(f for fo, f, k, on in ew if fo == folder and on)
        if listed != expect:
            run.violation(f'{folder}/ (save_sensitive={sens}): files on disk {listed}, expected {expect}', case); return False
    for folder, fname, key, on in ew:
        if on and not compare_counter(run, case, f'{folder}/{fname}', oracles.read_rows(os.path.join(path, folder, fname), enc), res.found[key]):
            return False
    for ev in res.found_events:
        segs = ev[-1]
        if ev[0] == 'E':
            # str.lower() is context sensitive for GREEK CAPITAL SIGMA (final vs medial form): both spellings are the same lower-case text
            ns = lambda x_: x_.replace('ς', 'σ')
            mine_e = [ns(oracles.lower_keep_length(s_)) for s_, l in segs if l == 'E']
            if sorted(map(ns, ev[2])) != sorted(mine_e) or sorted(map(ns, ev[3])) != sorted(m.split('@', 1)[1] for m in mine_e):
                run.violation(f'e-mail items counted for {ev[1]!r} ({ev[2]}, providers {ev[3]}) are not the lower-cased E segments / their part after the first @', case, observed=segs); return False
        else:
            mine_w = [s_ for s_, l in segs if l == 'W']
            if sorted(ev[2]) != sorted(mine_w):
                run.violation(f'website URLs counted for {ev[1]!r} ({ev[2]}) are not the W segments {mine_w}', case, observed=segs); return False
            for u, hst in zip(sorted(ev[2]), sorted(ev[3], key=lambda x_: x_)) if len(ev[2]) == 1 else []:
                if hst not in u:
                    run.violation(f'website host {hst!r} counted for {ev[1]!r} is not part of the URL segment {u!r}', case); return False
            for pre in ev[4]:
                if pre is not None and (pre not in ('http://www.', 'http://', 'www.', 'https://', 'https://www.') or not any(u.startswith(pre) for u in ev[2])):
                    run.violation(f'website prefix {pre!r} counted for {ev[1]!r} does not start any of its URL segments {ev[2]}', case); return False
    run.ev('email_website_lists_compared', sum(1 for k in res.found.values() if k))
    # ---- base structures with the Markov pseudo-count
    N = res.passes[0]['num_passwords']
    c = case['coverage']
    base = Counter(t['base'])
    if c == 0:
        base = Counter({'M': 1})
    elif c != 1:
        base['M'] = N / c - N
    rows = oracles.read_rows(os.path.join(path, 'Grammar', 'grammar.txt'), 'ascii')
    if not compare_counter(run, case, f'Grammar/grammar.txt (coverage {c}, N={N})', rows, base):
        return False
    if c == 1 and any(v == 'M' for v, p in rows):
        run.violation('coverage 1 but the Markov structure is listed', case); return False
    if any(('E' in oracles.tokens(v) or 'W' in oracles.tokens(v)) for v, p in rows):
        run.violation('a structure with an e-mail/website segment is in Grammar/grammar.txt', case, observed=[v for v, p in rows][:6]); return False
    # ---- the N of the model as recorded in config.ini (the denominator of the Markov pseudo-count) is the number of passwords trained on
    import configparser
    cp = configparser.ConfigParser()
    cp.read(os.path.join(path, 'config.ini'), encoding='utf-8')
    sec = 'TRAINING_DATASET_DETAILS'
    if cp.has_section(sec):
        got = (cp.get(sec, 'number_of_passwords_in_set', fallback=None), cp.get(sec, 'number_of_encoding_errors', fallback=None))
        want = (str(N), str(res.passes[0]['num_encoding_errors']))
        if got != want:
            run.violation(f'config.ini records number_of_passwords_in_set / number_of_encoding_errors = {got}, the training passes counted {want}', case); return False
        run.ev('config_counts_compared')
    run.ev('rulesets_compared')
    return True

def tree_digest(path):
    out = {}
    for root, dirs, files in os.walk(path):
        for f in sorted(files):
            p = os.path.join(root, f)
            b = open(p, 'rb').read()
            if f == 'config.ini':
                b = b'\n'.join(l for l in b.split(b'\n') if not (l.startswith(b'uuid') or l.startswith(b'filename')))
            out[os.path.relpath(p, path)] = hashlib.sha256(b).hexdigest()
    return out

def check_determinism(run, case):
    """The real CLI, two fresh processes, different hash seeds: byte-identical trees modulo uuid."""
    s = repo.scratch()
    tf = os.path.join(s, f'det_{os.getpid()}.txt')
    open(tf, 'wb').write(trainlists.render_plain([(p, k) for p, k in case['items']], case['encoding']))
    names = []
    try:
        digs = []
        for hs in ('1', '987654', '31337'):
            nm = f'det_{os.getpid()}_{hs}'
            names.append(nm)
            out, err, rc, to = cli.run_cli('trainer.py', ['-r', nm, '-t', tf, '-e', case['encoding'], '-c', str(case['coverage']), '-n', str(case['ngram']),
                                                           '-a', str(case['alphabet'])] + (['--save_sensitive'] if case.get('save_sensitive') else []), stdin_mode='devnull', hashseed=hs)
            run.ev('trainer_cli_runs')
            p = os.path.join(s, 'Rules', nm)
            if not os.path.exists(os.path.join(p, 'Grammar', 'grammar.txt')):
                run.inconc('CLI training did not complete'); return
            digs.append(tree_digest(p))
        if not (digs[0] == digs[1] == digs[2]):
            diff = [k for d_ in digs[1:] for k in set(digs[0]) | set(d_) if digs[0].get(k) != d_.get(k)]
            run.violation(f'three trainings of the same list/options (different PYTHONHASHSEED) differ in {sorted(diff)[:5]}', case, observed=sorted(diff)); return
        run.ev('determinism_pairs')
        # the in-process driver used by the other trainer-side checks must produce what the real CLI produces
        if case['max_len'] == 21:
            nm2, p2, res2 = trained.train_case(case, 'c06ip')
            try:
                if res2.ok and tree_digest(p2) != digs[0]:
                    d2 = tree_digest(p2)
                    diff = sorted(k for k in set(d2) | set(digs[0]) if d2.get(k) != digs[0].get(k))
                    run.violation(f'ruleset trained through trainer.py differs from the one trained by run_trainer in-process in {diff[:5]}', case, observed=diff); return
                run.ev('cli_vs_inprocess_trainings')
            finally:
                repo.drop_rules(nm2)
    finally:
        os.remove(tf)
        for nm in names:
            shutil.rmtree(os.path.join(s, 'Rules', nm), ignore_errors=True)

def check_retrain(run, case):
    """Two-step history: a list with many categories is trained into a rule directory, then a list lacking whole categories is trained into
    the SAME directory.  The result must be what a fresh training of the second list gives, and nothing of the first one may survive."""
    first = dict(case['first'])
    second = dict(case['second'])
    nameA, pathA, resA = trained.train_case(first, 'c06r')
    try:
        if not resA.ok:
            run.ev('trainings_not_completed'); run.inconc('training did not complete'); return
        data = trainlists.render_plain([(p, k) for p, k in second['items']], second['encoding'])
        resB = trainer.train(data, pathA, encoding=second['encoding'], coverage=second['coverage'], ngram=second['ngram'],
                             alphabet_size=second['alphabet'], max_len=second['max_len'], save_sensitive=bool(second.get('save_sensitive')))
        nameF, pathF, resF = trained.train_case(second, 'c06f')
        try:
            if not (resB.ok and resF.ok):
                run.ev('trainings_not_completed'); run.inconc('training did not complete'); return
            if not check_files(run, case, pathA, resB):
                return
            dA, dF = tree_digest(pathA), tree_digest(pathF)
            if dA != dF:
                diff = sorted(k for k in set(dA) | set(dF) if dA.get(k) != dF.get(k))
                run.violation(f're-training a rule directory gives a different ruleset than a fresh training of the same list: {diff[:6]}', case, observed=diff); return
            run.ev('retrainings_compared')
            run.case(h(['retrain', first['items'], second['items']]))
        finally:
            repo.drop_rules(nameF)
    finally:
        repo.drop_rules(nameA)

def gen_retrain_case(rng):
    first = trained.gen_train_case(rng, encodings=['utf-8'], coverages=(0.6, 1.0), max_len_choices=(21,))
    first['alphabet'] = 100
    first['items'] += [['1qaz2wsx', 2], ['pass!!', 1], ['$$money$$', 1], ['bob@gmail.com', 1], ['www.site.net1', 1], ['qwer1234', 2], ['Mr.X2019', 1]]
    second = dict(first)
    second['save_sensitive'] = rng.random() < 0.3        # may differ from the first training: the sensitive lists of the first one must not survive
    kind = rng.choice(['letters', 'digits', 'letters+digits', 'lower'])
    pool = {'letters': ['password', 'dragon', 'Monkey', 'LOVE', 'sunshine'], 'digits': ['123456', '0000', '42', '2580'],
            'letters+digits': ['password1', 'dragon12', 'abc123', 'love2'], 'lower': ['password', 'love', 'dragon', 'test']}[kind]
    second['items'] = [[w, rng.choice([1, 2, 6])] for w in rng.sample(pool, rng.randint(2, len(pool)))]
    # the second training may also use another encoding and another n-gram size than the first (the second list is ASCII): nothing of the first one survives
    second['encoding'] = rng.choice(['utf-8', 'utf-8', 'latin-1', 'cp1251'])
    second['ngram'] = rng.choice([first['ngram'], first['ngram'], 2, 3, 4])
    return {'first': first, 'second': second, 'retrain': True, 'coverage': second['coverage']}

def check_case(run, case, det=False):
    name, path, res = trained.train_case(case, 'c06')
    try:
        if not res.ok:
            run.ev('trainings_not_completed'); run.inconc('training did not complete'); return
        run.ev('SEGMENTED', len(res.segmented))
        if not check_files(run, case, path, res):
            return
        t = trained.tally(res.segmented)
        ties = any(len(set(c.values())) < len(c) for fam in ('Alpha', 'Digits', 'Other') for c in t[fam].values())
        unsupported = t['raw'] != t['base']
        classes = sum(len(t[f]) for f in ('Alpha', 'Digits', 'Other'))
        run.case(h([case['items'], case['coverage'], case['encoding']]) if classes >= 2 and (ties or unsupported) else None)
        run.add_to_set('coverages', repr(case['coverage']))
        run.sample({'list': case['items'][:5], 'coverage': case['coverage'], 'encoding': case['encoding'],
                    'grammar.txt': oracles.read_rows(os.path.join(path, 'Grammar', 'grammar.txt'), 'ascii')[:4]})
    finally:
        repo.drop_rules(name)
    if det:
        check_determinism(run, case)

def check_interrupted(run, case):
    """CTRL-C during a training.  The trainer of today dies and saves nothing; a ruleset that is left behind all the same must still be a relative-frequency
    model with the stated coverage arithmetic: P(M) = (1/c - 1) / (s + 1/c - 1) and every supported structure = its raw share / (s + 1/c - 1), s being the
    supported share of raw_grammar.txt - whatever part of the list it was trained on."""
    from .. import interrupt
    c = case['coverage']
    ref, outs, cleanup = interrupt.interrupted_trainings(case['seed'], case['n_lines'], ['-c', str(c), '-n', '3'], case['points'], tag='c06int')
    try:
        def arithmetic(path):
            d = oracles.Disk(path)
            raw = [(s_, float(p_)) for s_, p_ in d.base_rows['Raw']] if 'Raw' in d.base_rows else None
            if raw is None:
                rows = [l.split('\t') for l in open(os.path.join(path, 'Grammar', 'raw_grammar.txt'), encoding='utf-8').read().split('\n') if l]
                raw = [(r[0], float(r[1])) for r in rows]
            sup = {s_: p_ for s_, p_ in raw if 'E' not in s_ and 'W' not in s_}
            sh = sum(sup.values())
            den = sh + 1 / c - 1
            g = {s_: float(p_) for s_, p_ in d.base_rows['Grammar']}
            bad = []
            if abs(g.get('M', 0.0) - (1 / c - 1) / den) > 1e-9:
                bad.append(('M', g.get('M'), (1 / c - 1) / den))
            for s_, p_ in sup.items():
                if abs(g.get(s_, 0.0) - p_ / den) > 1e-9:
                    bad.append((s_, g.get(s_), p_ / den))
            return bad
        if not os.path.exists(os.path.join(ref['path'], 'Grammar', 'grammar.txt')):
            run.inconc('reference training did not complete'); return
        bad = arithmetic(ref['path'])
        if bad:
            run.violation(f'uninterrupted CLI training (coverage {c}): Grammar/grammar.txt is not raw_grammar.txt under the coverage arithmetic: {bad[:3]}', case); return
        for o in outs:
            run.ev('trainings_interrupted_by_sigint')
            if not o['saved']:
                run.ev('interrupted_trainings_that_saved_nothing'); continue
            if o['rc'] != 0:
                # killed while it was writing the ruleset: the trainer did not claim that this training completed, the partial tree is not judged
                run.ev('interrupted_trainings_killed_while_saving'); continue
            run.ev('interrupted_trainings_that_left_a_ruleset')
            try:
                bad = arithmetic(o['path'])
            except Exception as e:
                bad = [('unreadable', repr(e), None)]
            if bad:
                run.violation(f'trainer.py interrupted by SIGINT {o["at"]:.2f}s into a {ref["seconds"]:.2f}s training left a ruleset whose Grammar/grammar.txt breaks the coverage arithmetic '
                              f'(coverage {c}): {bad[:3]}', case, observed={'stdout_tail': o['stdout_tail'][-200:], 'stderr_tail': o['stderr_tail'][-200:]}); return
        run.case(h(['interrupted', case['seed'], case['n_lines'], c]))
    finally:
        cleanup()

def run(run, rng):
    run.required_events = ['SEGMENTED', 'lists_compared', 'rulesets_compared', 'determinism_pairs', 'retrainings_compared']
    run.min_distinct = 10
    run.assumptions = ['tallies are computed by the harness from the section lists handed to base_structure_creation (C05 checks those)',
                       'e-mail provider / website host lists are compared with what the two detectors reported per password (recorded at their call in the parser)',
                       'count/total compared with relative tolerance 1e-12']
    for i in range(N[run.tier]):
        case = gen_case(rng)
        det = i < DET[run.tier]
        if det and i % 2 == 0:
            # determinism under different hash seeds is most at risk where sets / dicts of several distinct items are written: make sure the list holds
            # several distinct unsupported structures (e-mail, website, e-mail + digits ...) and several tied counts
            case['items'] = case['items'][:4] + [[e, 1] for e in trainlists.EMAILS[:2] + trainlists.SITES[:2]] + [['bob@gmail.com123', 1], ['!www.google.com', 1], ['x@y.org!', 1]]
            case['items'] = [[p, k] for p, k in case['items'] if trainlists.encodable(p, case['encoding'])]
        if i % 8 == 2 and case['encoding'] == 'utf-8':
            # runs of special characters that are not in Unicode normal form C (a combining overlay after `=`, the Greek question mark): the values are those code points
            case['items'] += [['love=\u0338', 2], ['love#$', 1], ['love;', 1], ['love\u037e', 2], ['x\u0387y', 1]]
        if i % 8 == 5:
            # several distinct values of one category and one length of 32 and more characters (long numbers, rows of symbols)
            d = lambda n: ''.join(rng.choice('0123456789') for _ in range(n))
            case['items'] += [[d(36), 3], [d(36), 2], [d(36), 1], ['!' * 33, 2], ['#' * 33, 1], ['ab' + d(40), 1], ['cd' + d(40), 1]]
        run.guard(case, check_case, det=det, seconds=240)
    for i in range(3 if run.tier == 'quick' else 40):
        run.guard(gen_retrain_case(rng), check_retrain, seconds=240)
    if run.shard[0] == 1 % run.shard[1]:
        run.guard({'interrupted': True, 'seed': rng.getrandbits(32), 'n_lines': 20000, 'coverage': rng.choice([0.5, 0.6, 0.3]), 'points': 18 if run.tier == 'quick' else 48},
                  check_interrupted, seconds=600)

def replay(run, case):
    if case['case'].get('interrupted'):
        check_interrupted(run, case['case'])
    elif case['case'].get('retrain'):
        check_retrain(run, case['case'])
    else:
        check_case(run, case['case'], det=True)
