"""C02 — every pre-terminal exactly once (multiset equality with the enumerated language + frontier invariant)."""
from collections import Counter
from .. import repo, rulesets, oracles, monitors, gstream
from ..evidence import timebox, CaseTimeout, h

LEVEL = 'exploration'
RULE = ('same generators as C01 (tie-heavy pools, repeated variable types, duplicate base structures, 1..5 variables, 1..6 groups); '
        'the real queue is run to exhaustion and the multiset of popped (structure, index-vector) is compared with an itertools.product '
        'enumeration of the on-disk ruleset; after every pop the frontier invariant is checked on the live heap. non-trivial = language '
        'in which >=1 node has >=2 parents of exactly equal probability; distinct by hash(spec, flags)')
SHARDS = {'quick': 4, 'thorough': 16}
N = {'quick': 250, 'thorough': 3000}

def big_dup_case(rng):
    """More than 10 000 pre-terminals per copy of a base structure that is listed twice with different probabilities (tool-internal caches and
    memo tables get evicted / refilled in the middle of such a run)."""
    k = rng.randint(22, 27)
    def rows(n, digits):
        tot = n * (n + 1) / 2
        return [[('%0' + str(digits) + 'd') % i, (n - i) / tot * rng.choice([1.0, 1.0, 0.999])] for i in range(n)]
    terms = {'D1': [[str(i), p] for i, p in zip(range(10), sorted((rng.random() for _ in range(10)), reverse=True))][:min(10, k)],
             'D2': rows(k, 2), 'D3': rows(k, 3), 'D4': rows(k, 4)}
    pa, pb = rng.choice([(0.6, 0.4), (0.55, 0.3), (0.5, 0.25)])
    return {'spec': {'encoding': 'utf-8', 'uuid': 'bigdup-%08x' % rng.getrandbits(32), 'base': [['D2D3D4', pa], ['D2D3D4', pb]], 'prince': [],
                     'terms': terms, 'omen': None, 'pool': 'bigdup'}, 'flags': {'skip_brute': False, 'all_lower': False, 'folder': 'Grammar'}, 'big': True}

def above_one_cases(rng):
    """What the trainer writes for a list whose passwords all share one structure and whose variables each have a single (tied) group: with --skip_brute the
    one remaining structure is rescaled to p / (1 - P(M)), which is 1 on paper and 1.0000000000000002 as floats for these (N, coverage): the most probable
    pre-terminal has a probability above 1."""
    out = []
    for N, c in [(1, 0.2), (1, 0.1), (7, 0.6), (11, 0.6), (14, 0.6), (3, 0.45), (5, 0.7)]:
        pseudo = N / c - N
        p, pm = N / (N + pseudo), pseudo / (N + pseudo)
        if not p / (1.0 - pm) > 1.0:
            continue
        om = rulesets.gen_omen(rng, alphabet='ab', ngram=2, max_len=3)
        om['probs'] = [[0, 0.01]]; om['keyspace'] = [[l, 1] for l in range(19)]
        shape = rng.choice([('A3D2', {'A3': [['abc', 1.0], ['dog', 1.0]], 'C3': [['LLL', 1.0]], 'D2': [['12', 1.0]]}),
                            ('D4', {'D4': [['2580', 1.0]]}), ('A4', {'A4': [['pass', 1.0]], 'C4': [['LLLL', 1.0], ['ULLL', 1.0]]})])
        base = sorted([[shape[0], p], ['M', pm]], key=lambda r: -r[1])
        out.append({'spec': {'encoding': 'utf-8', 'uuid': 'above1-%08x' % rng.getrandbits(32), 'base': base, 'prince': [], 'terms': shape[1], 'omen': om, 'pool': 'above1'},
                    'flags': {'skip_brute': True, 'all_lower': False, 'folder': 'Grammar'}, 'cli': True})
    return out

def tied_tail_case(rng):
    """51 000 base structures, every variable with two probability groups: 11 000 structures with pairwise different probabilities, then a tail of 40 000 with
    exactly the same probability (structures seen once in a large list) - more than 50 000 pre-terminals are queued at once and most of them tie."""
    import itertools
    labels = ['A1', 'A2', 'A3', 'D1', 'D2', 'D3', 'O1', 'O2', 'K4', 'Y1', 'X1', 'D4', 'A4', 'O3', 'A5', 'D5']
    tuples = rng.sample(list(itertools.product(labels, repeat=4)), 51000)
    head = 11000
    w = [3.0 + (head - i) / head * 5.0 for i in range(head)] + [1.0] * (len(tuples) - head)
    tot = sum(w)
    base = [[''.join(t), x / tot] for t, x in zip(tuples, w)]
    vals = {'A': lambda k: ['abcde'[:k], 'zyxwv'[:k]], 'D': lambda k: ['12345'[:k], '98765'[:k]], 'O': lambda k: ['!@#'[:k], '...'[:k]],
            'K': lambda k: ['1qaz', 'zaq1'], 'Y': lambda k: ['1999', '2012'], 'X': lambda k: ['#1', '<3']}
    terms = {}
    for lab in labels:
        a, b = vals[lab[0]](int(lab[1:]))
        terms[lab] = [[a, 0.75], [b, 0.25]]
        if lab[0] == 'A':
            terms['C' + lab[1:]] = [['L' * int(lab[1:]), 0.75], ['U' + 'L' * (int(lab[1:]) - 1), 0.25]]
    return {'spec': {'encoding': 'utf-8', 'uuid': 'tiedtail-%08x' % rng.getrandbits(32), 'base': base, 'prince': [], 'terms': terms, 'omen': None, 'pool': 'tiedtail'},
            'flags': {'skip_brute': False, 'all_lower': False, 'folder': 'Grammar'}, 'tied_tail': True}

def check_tied_tail(run, case, npops=70000):
    """A run that cannot be exhausted here is judged on its beginning: among the first npops pre-terminals, every pre-terminal of the language that is strictly
    more probable than the last one popped has been emitted, once."""
    name, path = gstream.materialise(case['spec'], 'c02tt')
    try:
        flags = gstream.flags_of(case)
        disk = oracles.Disk(path)
        lang = oracles.Language(disk, flags['skip_brute'], flags['skip_case'], flags['folder'])
        repo.scratch()
        from lib_guesser.priority_queue import PcfgQueue
        from .. import monitors
        pcfg = monitors.load_pcfg(path, 'x')
        q = PcfgQueue(pcfg)
        pops = []
        for k in range(npops):
            it = q.next()
            if it is None:
                break
            pops.append((monitors.pt_key(it['pt']), it['prob']))
        if len(pops) < npops // 2:
            run.inconc('tied-tail run: too few pops recorded'); return
        run.ev('POP', len(pops))
        last = pops[-1][1]
        emitted = Counter((tuple(k[0]), tuple(k[1])) for k, pr in pops if pr > last)
        expected = Counter()
        # depth-first over the index vectors of each base structure, left to right as the tool multiplies; factors are <= 1, so a branch at or below `last` is dead
        for bi, labs, bp, s_ in lang.base:
            if not bp > last:
                continue
            groups = [[g[0] for g in lang.groups[l]] for l in labs]
            stack = [((), bp)]
            while stack:
                idx, pr = stack.pop()
                if len(idx) == len(labs):
                    expected[(tuple(labs), idx)] += 1
                    continue
                for gi, f in enumerate(groups[len(idx)]):
                    pr2 = pr * f
                    if pr2 > last:
                        stack.append((idx + (gi,), pr2))
        if emitted != expected:
            lost = sum((expected - emitted).values()); rep = sum((emitted - expected).values())
            run.violation(f'among the first {len(pops)} pre-terminals of a ruleset with 51 000 base structures (40 000 of them tied): {lost} pre-terminal(s) more probable than the last one popped '
                          f'were never emitted, {rep} repeated/foreign', case, observed={'last_prob': last, 'examples_lost': [list(k[1]) for k in list((expected - emitted))[:3]]}); return
        run.case(h(['tied-tail', case['spec']['uuid']]))
    finally:
        repo.drop_rules(name)

def gen_case(rng):
    if rng.random() < 0.2:
        from .. import trained
        return {'train': trained.gen_train_case(rng, max_len_choices=(21,), coverages=(0.6, 1.0, 0.3)), 'spec': {'base': ['(trained)']},
                'flags': {'skip_brute': rng.random() < 0.5, 'all_lower': rng.random() < 0.3, 'folder': rng.choice(['Grammar', 'Grammar', 'Prince'])}}
    mg, xg, ml = rng.choice([(1, 4, 4), (2, 5, 3), (3, 6, 3), (2, 4, 5)])
    spec = rulesets.gen_spec(rng, min_groups=mg, max_groups=xg, max_len=ml, pool=rng.choice(['dyadic', 'dyadic3', 'equal', 'decimal', 'thirds', 'counts', 'tiny', 'random', 'nearties']))
    if spec.get('omen') and len(spec['omen']['probs']) >= 2 and rng.random() < 0.5:
        spec['omen']['probs'][1][1] = spec['omen']['probs'][0][1]      # two OMEN levels tie
    flags = {'skip_brute': rng.random() < 0.3, 'all_lower': rng.random() < 0.3, 'folder': 'Prince' if rng.random() < 0.1 else 'Grammar'}
    if flags['folder'] == 'Prince':
        gstream.add_prince(rng, spec)
    case = {'spec': spec, 'flags': flags}
    if rng.random() < 0.07:
        case['cli'] = True
        if rng.random() < 0.6:
            rulesets.legacy_variant(rng, spec)
    return case

def tie_patterns(lang, index):
    """For every node with >=2 parents: the rank pattern of its parents' probabilities (ties show as equal ranks)."""
    pats = Counter()
    for (labs, idx), ents in index.items():
        if sum(1 for i in idx if i > 0) < 2:
            continue
        bp = ents[0][1]
        # parents' float probabilities, left-to-right like the tool computes them
        base = None
        for b in lang.base:
            if tuple(b[1]) == labs:
                base = b[2]; break
        pp = []
        for pos, i in enumerate(idx):
            if i > 0:
                pr = base
                for q, (l, j) in enumerate(zip(labs, idx)):
                    pr *= lang.groups[l][j - 1 if q == pos else j][0]
                pp.append(pr)
        ranks = sorted(set(pp), reverse=True)
        pat = tuple(sorted(ranks.index(x) for x in pp))
        if len(set(pp)) < len(pp):
            pats[pat] += 1
    return pats

def check_case(run, case):
    name, path = gstream.materialise_case(run, case, 'c02')
    if name is None:
        return
    try:
        flags = gstream.flags_of(case)
        disk = oracles.Disk(path)
        lang = oracles.Language(disk, flags['skip_brute'], flags['skip_case'], flags['folder'])
        size = lang.size()
        if size > (70000 if case.get('big') else 20000):
            run.inconc('language above cap'); return
        index, total = gstream.oracle_index(lang, cap=80000)
        labsets = [(tuple(b[1]), b[2]) for b in lang.base]
        frontier = len(set(labsets)) == len(labsets) and size <= 1500
        try:
            pcfg, mon = gstream.run_queue(path, flags, frontier=frontier, max_pops=size + 5)
        except OverflowError:
            run.violation(f'the queue keeps emitting pre-terminals beyond the {size} the language holds (it repeats pre-terminals and does not reach exhaustion)', case); return
        run.ev('POP', len(mon.pops)); run.ev('frontier_checks', mon.checked_frontier)
        emitted = Counter(p['key'] for p in mon.pops)
        expected = Counter({k: len(v) for k, v in index.items()})
        # the frontier invariant describes the Deadbeat-Dad queue from the inside; the property is about what is emitted.  A breach is reported as the
        # (earlier, more precise) witness of a wrong emitted multiset; without such an effect it is only counted
        fr = [(kind, k, msg) for kind, k, msg in mon.problems if kind in ('dup-in-queue', 'emitted-and-queued', 'orphan-in-queue', 'lost-child')]
        if fr and emitted != expected:
            kind, k, msg = fr[0]
            run.violation(f'frontier invariant broken after pop {k}: {kind}: {msg} (emitted multiset: {sum((expected - emitted).values())} lost, {sum((emitted - expected).values())} repeated/foreign)',
                          case, observed=[list(p['key'][1]) for p in mon.pops[max(0, k - 4):k + 1]])
        elif fr:
            run.ev('frontier_anomalies_without_observable_effect', len(fr))
        if emitted != expected and not fr:
            lost = sorted((expected - emitted).items())[:3]
            dup = sorted((emitted - expected).items())[:3]
            run.violation(f'emitted pre-terminals differ from the language: {sum((expected - emitted).values())} lost, {sum((emitted - expected).values())} repeated/foreign',
                          case, observed={'lost': lost, 'repeated': dup, 'pops': len(mon.pops)}, expected={'size': total})
        # ---- the process boundary: what the real CLI writes when run to exhaustion is the language, each derivation once (non-Markov languages of
        # moderate size; rulesets in legacy code pages included - the tool's stdout is UTF-8 here, so every guess is representable)
        if case.get('cli') and flags['folder'] == 'Grammar' and emitted == expected and not any('M' in b[1] for b in lang.base):
            # count before expanding: a language of 20 000 pre-terminals may hold 10^8 guesses
            nguesses = 0
            for bi, idx, pr, labs in lang.preterminals(cap=80000):
                k = 1
                for l, i in zip(labs, idx):
                    k *= len(lang.groups[l][i][1])
                nguesses += k
                if nguesses > 6000:
                    break
            want = Counter()
            if nguesses <= 6000:
                for bi, idx, pr, labs in lang.preterminals(cap=80000):
                    want.update(lang.expand(labs, list(idx)))
            if nguesses <= 6000 and sum(want.values()) <= 6000:
                from .. import cli, session
                sn = session.new_session_name('c02cli')
                fl = (['--skip_brute'] if flags['skip_brute'] else []) + (['--all_lower'] if flags['skip_case'] else [])
                out, err, rc, to = cli.run_cli('pcfg_guesser.py', ['-r', name, '-s', sn] + fl, stdin_mode='devnull', timeout=120, max_out=8 << 20)
                session.drop_session(sn)
                run.ev('cli_runs')
                if not to:
                    got = Counter(out.decode('utf-8', 'replace').split('\n')[:-1] if out else [])
                    if got != want:
                        lost = list((want - got).elements())[:5]; extra = list((got - want).elements())[:5]
                        run.violation(f'pcfg_guesser.py run to exhaustion (ruleset encoding {disk.encoding}): stdout lines differ from the language: {sum((want - got).values())} lost '
                                      f'{lost}, {sum((got - want).values())} repeated/foreign {extra}', case, observed={'stderr_tail': err[-200:].decode('utf-8', 'replace')})
                    else:
                        run.ev('cli_exhaustion_runs_equal_language')
        pats = tie_patterns(lang, index)
        for pat in pats:
            run.add_to_set('tie_patterns', repr(pat))
        run.ev('tie_nodes', sum(pats.values()))
        run.case(h(case) if pats else None)
        run.sample({'base': case['spec']['base'], 'flags': case['flags'], 'language_size': total, 'pops': len(mon.pops),
                    'tie_nodes': sum(pats.values()), 'patterns': [repr(p) for p in list(pats)[:4]], 'frontier_checked': mon.checked_frontier})
    finally:
        repo.drop_rules(name)

def run(run, rng):
    run.required_events = ['POP', 'frontier_checks', 'tie_nodes', 'cli_exhaustion_runs_equal_language']
    run.min_distinct = 5
    run.assumptions = ['well-formed rulesets; languages <= 20000 pre-terminals; frontier invariant only where base structures are pairwise distinguishable and the language has <= 1500 nodes',
                       'identity of a pre-terminal = (label sequence with C inserted, index vector); duplicate base structures count separately']
    if run.shard[0] == 0 or run.tier == 'thorough':
        run.ev('big_duplicate_structure_cases')
        run.guard(big_dup_case(rng), check_case, seconds=300)
    if run.shard[0] == 0:
        from .. import trained
        for zc in trained.ZERO_KEYSPACE_CASES:
            run.ev('zero_keyspace_trainings')
            run.guard({'train': dict(zc), 'spec': {'base': [], 'prince': [], 'pool': 'trained'}, 'flags': {'skip_brute': False, 'all_lower': False, 'folder': 'Grammar'}}, check_case, seconds=120)
    if run.shard[0] == 2 % run.shard[1]:
        run.ev('tied_tail_cases')
        run.guard(tied_tail_case(rng), check_tied_tail, seconds=600)
    if run.shard[0] == 1 % run.shard[1]:
        for case in above_one_cases(rng):
            run.ev('rescaled_probability_above_one_cases')
            run.guard(case, check_case, seconds=60)
    for i in range(N[run.tier]):
        case = gen_case(rng)
        run.guard(case, check_case, seconds=60)

def replay(run, case):
    if case['case'].get('tied_tail'):
        check_tied_tail(run, case['case'])
    else:
        check_case(run, case['case'])
