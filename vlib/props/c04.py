"""C04 — a pre-terminal expands to exactly the product of its terminal groups; count returned = lines written."""
from collections import Counter
from .. import repo, rulesets, oracles, monitors, gstream
from ..evidence import timebox, CaseTimeout, h

LEVEL = 'exploration'
RULE = ('generated rulesets emphasising expansion shapes (alpha words at start/middle/end, adjacent A A, all U/L masks up to length 4, '
        'groups of 1-4 values, values with spaces / non-ASCII, Markov structures with 1-3 levels of a generated OMEN model); for every POP the '
        'lines written by the real create_guesses and its return value are compared with the product computed by the reference model '
        '(Markov: brute-force enumeration of the level). non-trivial = pre-terminal with >=2 positions and a group of >=2 values, or a Markov '
        'pre-terminal; distinct by (labels, index vector, group sizes)')
SHARDS = {'quick': 4, 'thorough': 16}
N = {'quick': 150, 'thorough': 2500}

def classify(case_info):
    return None

def gen_case(rng):
    if rng.random() < 0.15:
        from .. import trained
        return {'train': trained.gen_train_case(rng, max_len_choices=(21,), coverages=(1.0, 0.6)), 'spec': {'base': ['(trained)'], 'omen': None},
                'flags': {'skip_brute': True, 'all_lower': rng.random() < 0.3, 'folder': 'Grammar'}}
    labels = rng.sample(['A1', 'A2', 'A3', 'A4', 'A5'], rng.randint(1, 3)) + rng.sample(['D1', 'D2', 'O1', 'O2', 'K4', 'Y1', 'X1'], rng.randint(0, 3))
    spec = rulesets.gen_spec(rng, labels=labels, max_groups=rng.choice([1, 2, 3]), max_per_group=4, with_m=rng.random() < 0.35,
                             pool=rng.choice(['counts', 'dyadic', 'equal', 'decimal', 'nearties']))
    if rng.random() < 0.35:
        rulesets.add_odd_alpha(rng, spec)
    if spec['omen'] and rng.random() < 0.3 and len(spec['omen']['probs']) >= 2:
        # two OMEN levels carrying the same probability (used to be merged into one pre-terminal that generated only the first)
        spec['omen']['probs'][1][1] = spec['omen']['probs'][0][1]
    flags = {'skip_brute': False, 'all_lower': rng.random() < 0.2, 'folder': 'Grammar'}
    return {'spec': spec, 'flags': flags}

def check_case(run, case):
    name, path = gstream.materialise_case(run, case, 'c04')
    if name is None:
        return
    try:
        flags = gstream.flags_of(case)
        disk = oracles.Disk(path)
        lang = oracles.Language(disk, flags['skip_brute'], flags['skip_case'], flags['folder'])
        if lang.size() > 4000:
            run.inconc('language above cap'); return
        omen = oracles.OmenModel(os.path.join(path, 'Omen')) if case['spec'].get('omen') else None
        state = {'stop': False}
        def expand(rec, item, pcfg):
            if state['stop']:
                return
            labs, idx = rec['key']
            # loader groups == on-disk groups
            for l, i in zip(labs, idx):
                got = pcfg.grammar[l][i]['values']
                exp = lang.groups[l][i][1]
                if got != exp or pcfg.grammar[l][i]['prob'] != lang.groups[l][i][0]:
                    run.violation(f'group {l}[{i}] loaded by the guesser differs from the on-disk lines with that probability', case,
                                  observed=got[:6], expected=exp[:6]); state['stop'] = True; return
            lines, n = monitors.record_guesses(pcfg, item['pt'])
            run.ev('GUESS', len(lines)); run.ev('COUNT')
            if labs == ('M',):
                levels = [int(v) for v in lang.groups['M'][idx[0]][1]]
                try:
                    exp = []
                    for L in levels:
                        exp += omen.enumerate_level(L, cap=100000)
                except OverflowError:
                    run.inconc('omen level above cap'); return
                info = {'markov_group_levels': len(levels)}
                run.ev('markov_preterminals')
                nontriv = ('M', len(exp) > 1)
            else:
                exp = lang.expand(list(labs), list(idx))
                info = {}
                sizes = tuple(len(lang.groups[l][i][1]) for l, i in zip(labs, idx))
                nontriv = (labs, idx, sizes) if (len(labs) >= 2 and max(sizes) >= 2) else None
            if n != len(lines):
                run.violation(f'create_guesses returned {n} but wrote {len(lines)} lines for {rec["key"]}', case, observed=n, expected=len(lines), mech=classify(info))
                state['stop'] = True
            if Counter(lines) != Counter(exp):
                miss = list((Counter(exp) - Counter(lines)).elements())[:5]
                extra = list((Counter(lines) - Counter(exp)).elements())[:5]
                run.violation(f'expansion of {rec["key"]} differs from the product of its groups: {len(miss)}+ missing, {len(extra)}+ extra',
                              case, observed={'missing': miss, 'extra': extra, 'n_lines': len(lines)}, expected={'n': len(exp)}, mech=classify(info))
                if classify(info) is None:
                    state['stop'] = True
            run.case(h(nontriv) if nontriv else None)
            if len(run.samples) < run.MAX_SAMPLES and nontriv and len(lines) <= 12:
                run.sample({'pt': [list(labs), list(idx)], 'lines': lines, 'returned': n})
        pcfg, mon = gstream.run_queue(path, flags, expand=expand)
        run.ev('POP', len(mon.pops))
        run.ev('rulesets')
    finally:
        repo.drop_rules(name)

import os
def run(run, rng):
    run.required_events = ['POP', 'GUESS', 'COUNT', 'markov_preterminals']
    run.min_distinct = 20
    run.assumptions = ['well-formed rulesets (A<n>/C<n> values have length n)', 'order of lines inside one pre-terminal is not part of this property (multiset comparison)',
                       'OMEN levels with more than 100000 strings are not decided (counted inconclusive)']
    for i in range(N[run.tier]):
        case = gen_case(rng)
        run.guard(case, check_case, seconds=90)

def replay(run, case):
    check_case(run, case['case'])
