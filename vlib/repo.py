"""Locate the tree under test and give every check process a private scratch copy of it.

The CLIs of pcfg_cracker resolve Rules/<name> and <session>.sav relative to realpath(__file__), so
monitors that need generated rulesets import the code from a scratch copy (tree minus .git/Rules/docs,
about 0.7 MB) made from the *current working tree* of VERIF_REPO (default /repo) at process start.
Nothing is cached between runs; the copy is removed at exit."""
import os, sys, shutil, tempfile, atexit

REPO = os.path.abspath(os.environ.get('VERIF_REPO', '/repo'))
VERIF = os.path.dirname(os.path.dirname(os.path.abspath(__file__)))
PY = sys.executable
_scratch = None
_owned = False

def _ignore(d, names):
    return [n for n in names if n in ('.git', 'Rules', 'docs', '__pycache__', '.pytest_cache', 'unit_tests', 'future_research')
            or n.endswith(('.pyc', '.sav', '.omn'))]

def scratch():
    """Return the scratch copy (created on first use; shared with worker subprocesses through VERIF_SCRATCH)."""
    global _scratch, _owned
    if _scratch:
        return _scratch
    env = os.environ.get('VERIF_SCRATCH')
    if env and os.path.isdir(env):
        _scratch = env
    else:
        base = os.environ.get('TMPDIR', '/tmp')
        _scratch = tempfile.mkdtemp(prefix='pcfgverif_', dir=base)
        shutil.copytree(REPO, os.path.join(_scratch, 't'), ignore=_ignore)
        _scratch = os.path.join(_scratch, 't')
        os.makedirs(os.path.join(_scratch, 'Rules'), exist_ok=True)
        _owned = True
        os.environ['VERIF_SCRATCH'] = _scratch
        atexit.register(cleanup)
    sys.dont_write_bytecode = True
    if _scratch not in sys.path:
        sys.path.insert(0, _scratch)
    return _scratch

def cleanup():
    global _scratch, _owned
    if _owned and _scratch:
        shutil.rmtree(os.path.dirname(_scratch), ignore_errors=True)
    _owned = False

_counter = [0]
def new_rules_dir(tag='r'):
    """A fresh, empty Rules/<name> directory inside the scratch copy; returns (name, path)."""
    s = scratch()
    _counter[0] += 1
    name = f"{tag}_{os.getpid()}_{_counter[0]}"
    p = os.path.join(s, 'Rules', name)
    os.makedirs(p)
    return name, p

def drop_rules(name):
    shutil.rmtree(os.path.join(scratch(), 'Rules', name), ignore_errors=True)


def other_filesystem_tmpdir():
    """A writable directory on another file system than the scratch copy (e.g. /dev/shm when the scratch copy is under /tmp), or None.  Used as TMPDIR: a tool
    that builds a file in the temporary directory and renames it into place meets a cross-device rename there."""
    import tempfile
    here = os.stat(scratch()).st_dev
    for d in ('/dev/shm', '/run/shm', '/var/tmp', '/tmp'):
        try:
            if os.path.isdir(d) and os.access(d, os.W_OK) and os.stat(d).st_dev != here:
                return tempfile.mkdtemp(prefix='pcfgverif_tmp_', dir=d)
        except OSError:
            pass
    return None
