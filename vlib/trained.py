"""Shared helpers for properties that start from a ruleset produced by the real trainer."""
import os, unicodedata
from collections import Counter
from . import repo, trainer, trainlists, oracles, monitors

def gen_train_case(rng, encodings=None, coverages=(0.3, 0.6, 1.0), allow_ew=True, max_len_choices=(6, 7, 8, 9)):
    enc = rng.choice(encodings or ['utf-8', 'utf-8', 'utf-8', 'latin-1', 'cp1251', 'cp1252', 'ascii', 'iso-8859-7', 'cp1254'])
    items = trainlists.gen_list(rng, enc, allow_ew=allow_ew)
    # OMEN-starved trainings: a tiny learned alphabet and long n-grams leave (almost) no initial n-gram inside the alphabet, so often no OMEN level has any
    # keyspace; with coverage < 1 the trainer must refuse (or otherwise not write a Markov structure nothing can be generated from)
    starved = rng.random() < 0.06
    if rng.random() < 0.3:
        # passwords that begin / end with blanks (the blank is part of the password)
        items = list(items) + [(w, rng.choice([1, 2])) for w in rng.sample([' lead1', 'trail2 ', '  two3', '\xa0nbsp7', ' Both8 ', 'in ner9'], rng.randint(1, 3)) if trainlists.encodable(w, enc)]
    if rng.random() < 0.06:
        # every supported password has the same base structure (a list of first names + two digits, of PINs ...): with --skip_brute its rescaled
        # probability is p / (1 - P(M)) = 1 on paper and 1 +- 1 ulp as floats
        shape = rng.choice(['A4D2', 'D4', 'A5', 'A3O1'])
        mk = {'A4D2': lambda: rng.choice(['love', 'blue', 'star', 'king', 'moon']) + rng.choice(['12', '99', '07', '42']),
              'D4': lambda: rng.choice(['1234', '2580', '0000', '1111', '4321', '9876']),
              'A5': lambda: rng.choice(['house', 'super', 'world', 'admin', 'hello']),
              'A3O1': lambda: rng.choice(['cat', 'dog', 'fox', 'sun']) + rng.choice('!.#')}[shape]
        items = list({mk(): rng.choice([1, 2, 3]) for _ in range(rng.randint(1, 6))}.items())
    if enc.startswith('utf-8') and rng.random() < 0.12:
        # U+FEFF is an ordinary 'other' character for the trainer (a list saved as "UTF-8 with BOM" and read as utf-8 starts with one): here it is the most
        # frequent value of its terminal file, i.e. the first three bytes of that file
        items = list(items) + [(rng.choice(['\ufeffpass1', '\ufeff', 'love\ufeff12', '\ufeff\ufeffx']), rng.choice([6, 9]))]
    tiny = rng.random() < 0.05
    if tiny:
        # every password is shorter than the n-gram size (PINs, initials): OMEN learns nothing at all; such a list can only be trained with coverage 1
        items = [(w, rng.choice([1, 2, 5])) for w in rng.sample(['1234', '0000', 'abc', 'Zq', '7', '!!', '2580', 'xy1', 'Abc!'], rng.randint(1, 5))]
    case = {'save_sensitive': rng.random() < 0.3, 'prefixcount': rng.random() < 0.25, 'items': [[p, k] for p, k in items], 'encoding': enc, 'coverage': rng.choice(list(coverages)) if rng.random() < 0.7 else (round(rng.uniform(0.05, 0.99), rng.choice([2, 3, 6])) if 0 not in coverages or rng.random() < 0.9 else 0), 'ngram': rng.choice([4, 5]) if starved else rng.choice([2, 3, 4, 5]),
            'alphabet': rng.choice([4, 5, 6]) if starved else rng.choice([10, 100, 100, 100, 30, 100, 100, 10, 100, 100, 6, 4]), 'max_len': rng.choice(list(max_len_choices)), 'hseed': rng.getrandbits(32)}
    if tiny:
        case['ngram'] = 5
        if 1.0 in coverages or 1 in coverages:
            case['coverage'] = 1.0
    return case

# Training lists for which no OMEN level has any keyspace (tiny alphabet, long n-grams) although smoothing succeeds: with coverage < 1 the trainer has to refuse,
# or at least must not write a ruleset whose Markov structure nothing can be generated from.  Found by the random generator, kept as fixed cases.
ZERO_KEYSPACE_CASES = [
    {'items': [['zaq1example.orgκωδικος', 2], ['zaq1<31975', 1], ['αγαπηa.b@mail.ru8house', 1], ['αγαπη2001!"  ', 1], ['Dogηλιος', 2], ['99', 1], ['1999', 6]],
     'encoding': 'utf-8', 'coverage': 0.6, 'ngram': 4, 'alphabet': 4, 'max_len': 21},
    {'items': [['man1', 5], ['1qaz1984', 1], ['`1234991975', 1], ['super', 5], ['I<3;p', 2], ['supermaN1', 4], ['zaq112κωδικοΣA', 2], ['121I<3', 1], ['superhttp://www.site.net:p', 1]],
     'encoding': 'iso-8859-7', 'coverage': 0.83, 'ngram': 5, 'alphabet': 10, 'max_len': 21},
    {'items': [['blue', 5], ['bluehousE', 4], ['maN', 6], ['house', 4], ['1984', 1], ['1qaz2wsx', 1], ['8passwordpassword69', 1], ['99313378i<3', 6]],
     'encoding': 'utf-8', 'coverage': 0.6, 'ngram': 5, 'alphabet': 4, 'max_len': 21},
]

def train_case(case, tag='tr', data=None, **extra):
    name, path = repo.new_rules_dir(tag)
    if data is None and case.get('prefixcount'):
        data = trainlists.render_prefix([(p, k) for p, k in case['items']], case['encoding'])
        extra = dict(extra, prefixcount=True)
    if data is None:
        data = trainlists.render_plain([(p, k) for p, k in case['items']], case['encoding'])
    res = trainer.train(data, path, encoding=case['encoding'], coverage=case['coverage'], ngram=case['ngram'],
                        alphabet_size=case['alphabet'], max_len=case['max_len'], save_sensitive=bool(case.get('save_sensitive')), **extra)
    return name, path, res

def reproducible_char(c):
    """The stated domain of C03/C13: a letter whose case mapping is one-to-one, i.e. lower-casing and re-applying its case gives it back."""
    lo = c.lower()
    if len(lo) != 1:
        return False
    if c.isupper():
        return lo.upper() == c
    return lo == c

def in_case_domain(s):
    return all(reproducible_char(c) for c in s if c.isalpha())

def tally(segmented):
    """My own tallies of the SEGMENTED events (what C06 compares the files with)."""
    t = {'Alpha': {}, 'Capitalization': {}, 'Digits': {}, 'Other': {}, 'Keyboard': {}, 'Years': Counter(), 'Context': Counter(),
         'base': Counter(), 'raw': Counter(), 'prince': Counter()}
    for pw, secs in segmented:
        labels = []
        for seg, lab in secs:
            labels.append(lab)
            t['prince'][lab] += 1
            k = lab[0]
            if k == 'A':
                t['Alpha'].setdefault(len(seg), Counter())[seg.lower() if len(seg.lower()) == len(seg) else oracles.lower_keep_length(seg)] += 1
                mask = ''.join('U' if ch.isupper() else 'L' for ch in seg)
                t['Capitalization'].setdefault(len(mask), Counter())[mask] += 1
            elif k == 'D':
                t['Digits'].setdefault(len(seg), Counter())[seg] += 1
            elif k == 'O':
                t['Other'].setdefault(len(seg), Counter())[seg] += 1
            elif k == 'K':
                t['Keyboard'].setdefault(len(seg), Counter())[seg] += 1
            elif k == 'Y':
                t['Years'][seg] += 1
            elif k == 'X':
                t['Context'][seg] += 1
        s = ''.join(labels)
        t['raw'][s] += 1
        if not any(l[0] in 'EW' for l in labels):
            t['base'][s] += 1
    return t
