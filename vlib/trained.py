"""Shared helpers for properties that start from a ruleset produced by the real trainer."""
import os, unicodedata
from collections import Counter
from . import repo, trainer, trainlists, oracles, monitors

def gen_train_case(rng, encodings=None, coverages=(0.3, 0.6, 1.0), allow_ew=True, max_len_choices=(6, 7, 8, 9)):
    enc = rng.choice(encodings or ['utf-8', 'utf-8', 'utf-8', 'latin-1', 'cp1251', 'cp1252', 'ascii', 'iso-8859-7'])
    items = trainlists.gen_list(rng, enc, allow_ew=allow_ew)
    # OMEN-starved trainings: a tiny learned alphabet and long n-grams leave (almost) no initial n-gram inside the alphabet, so often no OMEN level has any
    # keyspace; with coverage < 1 the trainer must refuse (or otherwise not write a Markov structure nothing can be generated from)
    starved = rng.random() < 0.1
    return {'save_sensitive': rng.random() < 0.3, 'items': [[p, k] for p, k in items], 'encoding': enc, 'coverage': rng.choice(list(coverages)) if rng.random() < 0.7 else (round(rng.uniform(0.05, 0.99), rng.choice([2, 3, 6])) if 0 not in coverages or rng.random() < 0.9 else 0), 'ngram': rng.choice([4, 5]) if starved else rng.choice([2, 3, 4, 5]),
            'alphabet': rng.choice([3, 4, 5]) if starved else rng.choice([10, 100, 100, 100, 30, 100, 100, 10, 100, 100, 6, 4]), 'max_len': rng.choice(list(max_len_choices)), 'hseed': rng.getrandbits(32)}

def train_case(case, tag='tr', data=None, **extra):
    name, path = repo.new_rules_dir(tag)
    if data is None and case.get('prefixcount'):
        data = trainlists.render_prefix([(p, k) for p, k in case['items']], case['encoding'])
        extra = dict(extra, prefixcount=True)
    if data is None:
        data = trainlists.render_plain([(p, k) for p, k in case['items']], case['encoding'])
    res = trainer.train(data, path, encoding=case['encoding'], coverage=case['coverage'], ngram=case['ngram'],
                        alphabet_size=case['alphabet'], max_len=case['max_len'], save_sensitive=bool(case.get('save_sensitive')), **extra)
    return name, path, res

def reproducible_char(c):
    """The stated domain of C03/C13: a letter whose case mapping is one-to-one, i.e. lower-casing and re-applying its case gives it back."""
    lo = c.lower()
    if len(lo) != 1:
        return False
    if c.isupper():
        return lo.upper() == c
    return lo == c

def in_case_domain(s):
    return all(reproducible_char(c) for c in s if c.isalpha())

def tally(segmented):
    """My own tallies of the SEGMENTED events (what C06 compares the files with)."""
    t = {'Alpha': {}, 'Capitalization': {}, 'Digits': {}, 'Other': {}, 'Keyboard': {}, 'Years': Counter(), 'Context': Counter(),
         'base': Counter(), 'raw': Counter(), 'prince': Counter()}
    for pw, secs in segmented:
        labels = []
        for seg, lab in secs:
            labels.append(lab)
            t['prince'][lab] += 1
            k = lab[0]
            if k == 'A':
                t['Alpha'].setdefault(len(seg), Counter())[seg.lower() if len(seg.lower()) == len(seg) else oracles.lower_keep_length(seg)] += 1
                mask = ''.join('U' if ch.isupper() else 'L' for ch in seg)
                t['Capitalization'].setdefault(len(mask), Counter())[mask] += 1
            elif k == 'D':
                t['Digits'].setdefault(len(seg), Counter())[seg] += 1
            elif k == 'O':
                t['Other'].setdefault(len(seg), Counter())[seg] += 1
            elif k == 'K':
                t['Keyboard'].setdefault(len(seg), Counter())[seg] += 1
            elif k == 'Y':
                t['Years'][seg] += 1
            elif k == 'X':
                t['Context'][seg] += 1
        s = ''.join(labels)
        t['raw'][s] += 1
        if not any(l[0] in 'EW' for l in labels):
            t['base'][s] += 1
    return t
