"""Driver + monitors for the real trainer (lib_trainer.run_trainer.run_trainer) run in-process from the scratch copy."""
import os, io, sys, contextlib, copy
from collections import Counter
from . import repo

class TrainResult:
    def __init__(self):
        self.ok = None
        self.stdout = ''
        self.segmented = []       # (password, [(segment, label), ...]) exactly as handed to base_structure_creation, in parse order
        self.passes = []          # per TrainerFileInput instance: {'yielded': [...], 'num_passwords': n, 'num_encoding_errors': n, 'prefixcount': b}
        self.omen_trainer = None
        self.omen_keyspace = None
        self.omen_levels_count = None
        self.parser = None        # the PCFGPasswordParser instance (count_* attributes)
        self.exc = None

def program_info(training_file, rule_name, encoding='utf-8', coverage=0.6, ngram=4, alphabet_size=100, max_len=21,
                 prefixcount=False, save_sensitive=False, multiword=False, comments=''):
    return {'name': 'PCFG Trainer', 'version': '4.7', 'author': 'Matt Weir', 'contact': 'cweir@vt.edu', 'rule_name': rule_name,
            'training_file': training_file, 'encoding': encoding, 'comments': comments, 'save_sensitive': save_sensitive,
            'prefixcount': prefixcount, 'ngram': ngram, 'alphabet_size': alphabet_size,
            'alphabet': 'abcdefghijklmnopqrstuvwxyzABCDEFGHIJKLMNOPQRSTUVWXYZ0123456789!.*@-_$#<?', 'smoothing': 0.01,
            'coverage': coverage, 'max_len': max_len, 'multiword': multiword}

def train(data, rules_path, multiword_data=None, **opts):
    """data: bytes of the training file.  Runs the real run_trainer with monitors installed; returns TrainResult.
    multiword_data: bytes of a --multiword pre-training word list (its reader pass is recorded in res.multiword_pass, not in res.passes)."""
    repo.scratch()
    import lib_trainer.run_trainer as rt
    import lib_trainer.pcfg_password_parser as ppp
    import lib_trainer.trainer_file_input as tfi
    from lib_trainer.trainer_file_output import create_rule_folders
    res = TrainResult()
    tf = rules_path.rstrip('/') + '.train.txt'
    with open(tf, 'wb') as f:
        f.write(data)
    mwf = None
    if multiword_data is not None:
        mwf = rules_path.rstrip('/') + '.multiword.txt'
        with open(mwf, 'wb') as f:
            f.write(multiword_data)
        opts['multiword'] = mwf
    res.multiword_pass = None
    info = program_info(tf, os.path.basename(rules_path), **opts)
    # ---- monitors
    orig_bsc = ppp.base_structure_creation
    cur = {'pw': None}
    orig_parse = ppp.PCFGPasswordParser.parse
    def parse(self, password):
        cur['pw'] = password
        res.parser = self
        return orig_parse(self, password)
    def bsc(section_list):
        res.segmented.append((cur['pw'], [tuple(x) for x in section_list]))
        return orig_bsc(section_list)
    # what the e-mail / website detectors report per password (the items behind Emails/ and Websites/)
    res.found = {k: Counter() for k in ('emails', 'providers', 'urls', 'hosts', 'prefixes')}
    res.found_events = []
    orig_ed, orig_wd = ppp.email_detection, ppp.website_detection
    def email_detection(section_list):
        out = orig_ed(section_list)
        res.found['emails'].update(out[0]); res.found['providers'].update(out[1])
        res.found_events.append(('E', cur['pw'], list(out[0]), list(out[1]), [tuple(x) for x in section_list]))
        return out
    def website_detection(section_list):
        out = orig_wd(section_list)
        res.found['urls'].update(out[0]); res.found['hosts'].update(out[1]); res.found['prefixes'].update(str(x) for x in out[2])      # 'no prefix' is the item None, written as the text None
        res.found_events.append(('W', cur['pw'], list(out[0]), list(out[1]), list(out[2]), [tuple(x) for x in section_list]))
        return out
    ppp.email_detection, ppp.website_detection = email_detection, website_detection
    orig_read = tfi.TrainerFileInput.read_password
    def read_password(self):
        rec = {'yielded': [], 'prefixcount': self.prefixcount, 'obj': self}
        if mwf is not None and self.filename == mwf:
            res.multiword_pass = rec
        else:
            res.passes.append(rec)
        for pw in orig_read(self):
            rec['yielded'].append(pw)
            yield pw
    orig_save_omen = rt.save_omen_rules_to_disk
    def save_omen(omen_trainer, omen_keyspace, omen_levels_count, *a, **k):
        res.omen_trainer, res.omen_keyspace, res.omen_levels_count = omen_trainer, omen_keyspace, omen_levels_count
        return orig_save_omen(omen_trainer, omen_keyspace, omen_levels_count, *a, **k)
    ppp.base_structure_creation = bsc
    ppp.PCFGPasswordParser.parse = parse
    tfi.TrainerFileInput.read_password = read_password
    rt.save_omen_rules_to_disk = save_omen
    out = io.StringIO()
    try:
        with contextlib.redirect_stdout(out), contextlib.redirect_stderr(out):
            if not create_rule_folders(rules_path):
                res.ok = False
            else:
                try:
                    res.ok = rt.run_trainer(info, rules_path)
                except Exception as e:
                    res.exc = e
                    res.ok = False
    finally:
        ppp.base_structure_creation = orig_bsc
        ppp.email_detection, ppp.website_detection = orig_ed, orig_wd
        ppp.PCFGPasswordParser.parse = orig_parse
        tfi.TrainerFileInput.read_password = orig_read
        rt.save_omen_rules_to_disk = orig_save_omen
        for f in (tf, mwf):
            try:
                if f:
                    os.remove(f)
            except FileNotFoundError:
                pass
    for rec in res.passes + ([res.multiword_pass] if res.multiword_pass else []):
        o = rec.pop('obj')
        rec['num_passwords'] = o.num_passwords
        rec['num_encoding_errors'] = o.num_encoding_errors
    res.stdout = out.getvalue()
    res.info = info
    return res
