"""known_findings.json loader.  Entries with status 'finding' suppress exit 1 for violations whose *mechanism
key* (computed by the check from the failing input/structure) matches; 'fixed' entries suppress nothing."""
import os, json
_PATH = os.path.join(os.path.dirname(os.path.dirname(os.path.abspath(__file__))), 'known_findings.json')
_cache = None
def _load():
    global _cache
    if _cache is None:
        try:
            _cache = json.load(open(_PATH))
        except FileNotFoundError:
            _cache = []
    return _cache
def lookup(prop, mech):
    if mech is None:
        return None
    for f in _load():
        if f.get('status') == 'finding' and f.get('property') == prop and f.get('key') == mech:
            return f
    return None
