#!/usr/bin/env python3
"""Self-test: apply each mutant (a realistic edit that keeps the 75 repository tests green) to a scratch copy of /repo and
require that the named property's check exits 1 there; `--benign` mutants must leave the named checks at exit 0.
usage: selftest/run.py [--only NAME_SUBSTR] [--tier quick] [--jobs N] [--no-pytest]"""
import os, sys, json, shutil, subprocess, tempfile, argparse, concurrent.futures as cf
HERE = os.path.dirname(os.path.abspath(__file__))
VERIF = os.path.dirname(HERE)
sys.path.insert(0, os.path.join(VERIF, 'tools'))
from crlf_patch import patch

def apply_edit(path, e):
    if 'old' in e:
        return patch(path, e['old'], e['new'], e.get('count', 1))
    raw = open(path, 'rb').read().decode('utf-8')
    find, nth = e['find'], e.get('nth', 0)
    pos, start = -1, 0
    for _ in range(nth + 1):
        pos = raw.find(find, start)
        if pos < 0:
            raise SystemExit(f"{path}: occurrence {nth} of {find!r} not found")
        start = pos + 1
    if e.get('unique') and raw.count(find) != 1:
        raise SystemExit(f"{path}: {find!r} is not unique")
    raw = raw[:pos] + e['repl'] + raw[pos + len(find):]
    open(path, 'wb').write(raw.encode('utf-8'))

def load():
    ms = json.load(open(os.path.join(HERE, 'mutants.json')))
    return ms

def run_one(m, tier, do_pytest):
    tmp = tempfile.mkdtemp(prefix='pcfg_mut_')
    tree = os.path.join(tmp, 'repo')
    try:
        shutil.copytree('/repo', tree, ignore=shutil.ignore_patterns('.git', 'docs', '__pycache__', '.pytest_cache'))
        try:
            for e in m['edits']:
                apply_edit(os.path.join(tree, e['file']), e)
        except SystemExit as ex:
            return {'name': m['name'], 'checks': {p: (-99, 'PATCH-FAIL ' + str(ex)) for p in m['props']}}
        res = {'name': m['name'], 'checks': {}}
        if do_pytest:
            r = subprocess.run(['/venv/bin/python', '-m', 'pytest', '-q', '-p', 'no:cacheprovider', '-x'], cwd=tree, capture_output=True, text=True)
            res['pytest'] = r.stdout.strip().split('\n')[-1]
        for prop in m['props']:
            env = dict(os.environ, VERIF_REPO=tree, VERIF_EVIDENCE_DIR=os.path.join(tmp, 'ev'), VERIF_REPLAY_DIR=os.path.join(tmp, 'rp'))
            r = subprocess.run([os.path.join(VERIF, 'check'), prop, '--tier', tier], env=env, capture_output=True, text=True, timeout=3600)
            first = next((l for l in r.stdout.split('\n') if l.startswith('  what:')), '')
            res['checks'][prop] = (r.returncode, first.strip()[:160])
        return res
    finally:
        shutil.rmtree(tmp, ignore_errors=True)

def main():
    ap = argparse.ArgumentParser()
    ap.add_argument('--only'); ap.add_argument('--tier', default='quick'); ap.add_argument('--jobs', type=int, default=4)
    ap.add_argument('--no-pytest', action='store_true')
    a = ap.parse_args()
    ms = [m for m in load() if not a.only or a.only in m['name'] or a.only in m['props']]
    bad = 0
    with cf.ThreadPoolExecutor(a.jobs) as ex:
        for res, m in zip(ex.map(lambda m: run_one(m, a.tier, not a.no_pytest), ms), ms):
            want = 0 if m.get('benign') else 1
            for prop, (rc, first) in res['checks'].items():
                ok = (rc == want)
                bad += not ok
                print(f"{'ok  ' if ok else 'MISS'} {m['name']:<40} {prop} exit={rc} (want {want}) pytest[{res.get('pytest', '-')}] {first}")
    print('misses:', bad)
    sys.exit(1 if bad else 0)
if __name__ == '__main__':
    main()
