#!/usr/bin/env python3
"""Source of selftest/mutants.json.  An edit replaces the nth occurrence of a single-line substring (line endings untouched)."""
import json, os
M = []
def mut(name, props, file, find, repl, nth=0, benign=False, desc='', more=()):
    edits = [{'file': file, 'find': find, 'repl': repl, 'nth': nth}] + [dict(file=f, find=a, repl=b, nth=n) for f, a, b, n in more]
    M.append({'name': name, 'props': props if isinstance(props, list) else [props], 'edits': edits, 'benign': benign, 'desc': desc})
G = 'lib_guesser/pcfg_grammar.py'; Q = 'lib_guesser/priority_queue.py'; CS = 'lib_guesser/cracking_session.py'; GIO = 'lib_guesser/grammar_io.py'
MC = 'lib_guesser/omen/markov_cracker.py'; GS = 'lib_guesser/omen/guess_structure.py'; OPT = 'lib_guesser/omen/optimizer.py'

# ---- reverts of the fixes
mut('revert-F-C08', 'C08', G, "if new_parent_prob <= max_prob:", "if new_parent_prob < max_prob:")
mut('revert-F-C15a', 'C15', CS, "self.save_config.remove_option('guessing_info', 'omen_guess_number')", "pass")
mut('revert-F-C10', 'C10', MC, "range(0,self.max_level + 1)", "range(0,self.max_level)")
mut('revert-F-C04', ['C04', 'C02'], GIO, "if group_ties and prob == prev_prob:", "if prob == prev_prob:")
# ---- C01 / C02
mut('c01-lt-benign', ['C01', 'C02'], Q, "return self.pt_item['prob'] > other.pt_item['prob']", "return self.pt_item['prob'] >= other.pt_item['prob']", benign=True)
mut('c01-lt-inverted', 'C01', Q, "return self.pt_item['prob'] > other.pt_item['prob']", "return self.pt_item['prob'] < other.pt_item['prob']")
mut('c01-findprob-wrong-factor', 'C01', G, "prob *= self.grammar[pt_type][index]['prob']", "prob *= self.grammar[pt_type][min(index, 2)]['prob']", desc='indices above 2 priced like index 2')
mut('c02-tiebreak-reversed', 'C02', G, "if pos < parent_pos:", "if pos > parent_pos:", benign=True, desc='any consistent tie-break among equally probable parents keeps exactly-once')
mut('c02-tiebreak-removed', 'C02', G, "if pos < parent_pos:", "if False:", desc='every tied parent adopts the child -> duplicates')
mut('c02-lower-parent-le', 'C02', G, "if new_parent_prob < parent_prob:", "if new_parent_prob <= parent_prob:")
mut('c02-children-bound', 'C02', G, "if len(self.grammar[parent_type]) == parent_index +1:", "if len(self.grammar[parent_type]) == parent_index +2:", nth=0)
mut('c02-skip-calling-parent-dropped', 'C02', G, "            if pos == parent_pos:\r\n                continue", "            if pos == parent_pos and False:\r\n                continue", benign=True, desc='calling parent compared with itself: equal prob, pos < parent_pos false -> no effect')
# ---- C04
mut('c04-mask-on-head', 'C04', G, "start_word = [cur_guess[:- mask_len]]", "start_word = [cur_guess[mask_len:]]", more=[(G, "end_word = cur_guess[- mask_len:]", "end_word = cur_guess[:mask_len]", 0)])
mut('c04-count-off-by-one', 'C04', G, "        return num_guesses\r\n\r\n\r\n    def _honeyword_recursive_guess", "        return num_guesses + (1 if len(pt) > 2 and num_guesses > 3 else 0)\r\n\r\n\r\n    def _honeyword_recursive_guess")
# ---- C08
mut('c08-maxprob-lt', 'C08', G, "elif parent_prob <= max_prob:", "elif parent_prob < max_prob:")
mut('c08-left-index-zero', 'C08', G, "save_function, left_index = pos)", "save_function, left_index = 0)")
mut('c08-save-after-break', 'C08', CS, "                self._save_session()\n                print(\"Exiting...\",file=sys.stderr)\n                break", "                print(\"Exiting...\",file=sys.stderr)\n                break")
# ---- C10
mut('c10-opt-live-list', 'C10', OPT, "return True, self.custom_copy( self.tmto_lookup[length][ip_ngram][target_level] )", "return True, self.tmto_lookup[length][ip_ngram][target_level]")
mut('c10-findcp-gt', 'C10', GS, "while top_level >= bottom_level:", "while top_level > bottom_level:")
mut('c10-ip-not-reset', 'C10', MC, "self.cur_ip  = [self.start_ip, 0]", "self.cur_ip  = [self.cur_ip[0], 0]", nth=1, desc='initial n-gram level not reset when the length advances')
# ---- C15
mut('c15-parse-tree-not-restored', 'C15', MC, "self.cur_guess.parse_tree = parse_tree", "pass", desc='resume restarts the current (length, initial n-gram) block from its first string')
mut('c15-save-resets-last-index', 'C15', MC, "pickle.dump(self.cur_guess.parse_tree, file)", "pickle.dump([x[:2] + [0] for x in self.cur_guess.parse_tree], file)", desc='saved parse tree loses the per-position indices')
mut('c15-quit-honoured-one-guess-late', 'C15', G, "            if self.should_exit:", "            if self.should_exit and num_guesses > 1:", benign=True, desc='quit inside a level honoured from the 2nd guess on: stop position moves, nothing lost or repeated')
mut('c15-restore-level-minus-one', 'C15', MC, "            self.target_level = pickle.load(file)", "            self.target_level = max(0, pickle.load(file) - 0)", benign=True)
# ---- C12
mut('revert-F-C12', 'C12', CS, "if self.pcfg.should_exit:", "if not user_thread.is_alive():")
M.append({'name': 'revert-F-C12b', 'props': ['C12'], 'benign': False, 'desc': 'status report failure ends the helper thread again',
          'edits': [{'file': CS, 'old': "            try:\n                report.print_status(pcfg)\n            except Exception as msg:\n                print(\"Unable to display the status report: \" + str(msg),file=sys.stderr)\n",
                     'new': "            report.print_status(pcfg)\n"}]})
mut('c12-any-input-quits', 'C12', CS, "if user_input == 'q':", "if user_input:")
mut('c12-quit-mid-preterminal', 'C12', G, "                    self.print_guess(new_guess)", "                    self.print_guess(new_guess)\r\n                    if self.should_exit: return num_guesses", nth=1)
mut('c12-no-save-on-quit', 'C12', CS, "                self._save_session()\n                print(\"Exiting...\",file=sys.stderr)\n                break", "                print(\"Exiting...\",file=sys.stderr)\n                break")
mut('c12-status-resets-counter', ['C12'], 'lib_guesser/status_report.py', "        status_item = pcfg.get_status(static_pt_item['pt'])", "        status_item = pcfg.get_status(static_pt_item['pt']); pcfg.omen_optimizer.tmto_lookup[2].clear()", benign=True, desc='status request clears part of the OMEN cache: no effect on the stream (C10)')
# ---- C09
mut('revert-F-C09', 'C09', 'lib_guesser/banner_info.py', "    print(file=sys.stderr)", "    print()")
mut('revert-F-C09b-save', 'C09', CS, 'print ("Error writing sessiong restore file: " + self.save_filename, file=sys.stderr)', 'print ("Error writing sessiong restore file: " + self.save_filename)')
mut('c09-limit-lt-zero', 'C09', G, "                        if limit == 0:\r\n                            return num_guesses", "                        if limit < 0:\r\n                            return num_guesses")
mut('c09-limit-not-decremented-in-C', 'C09', G, "                        limit = limit - num_recursive_guesses", "                        limit = limit", nth=0)
mut('c09-stray-print', 'C09', Q, "        self.max_probability = queue_item.pt_item['prob']", "        self.max_probability = queue_item.pt_item['prob']; print('') if len(self.p_queue) == 7 else None")
mut('c09-omen-limit-off-by-one', 'C09', G, "\r\n                limit = limit - 1\r\n", "\r\n                limit = limit - (1 if num_guesses > 1 else 0)\r\n")
# ---- C14
mut('revert-F-C14a', 'C14', GIO, "                # Reset the file pointer\r\n                file.seek(0)", "                # Reset the file pointer\r\n                pass")
mut('c14-skipcase-upper', 'C14', GIO, "'values': ['L'*length],", "'values': ['U'*length],")
mut('c14-totalprob-not-first', 'C14', GIO, "prob = float(split_values[1]) / total_prob", "prob = float(split_values[1]) / (total_prob if base_structures else 1.0)")
mut('c14-load-ignores-saved-flags', 'C14', 'pcfg_guesser.py', "        program_info['skip_brute'] = save_config.getboolean('rule_info','skip_brute')", "        pass")
mut('c14-skipbrute-keeps-M', 'C14', GIO, "if not skip_brute or 'M' not in new_base['replacements']:", "if not skip_brute or 'M' not in new_base['replacements'] or len(base_structures) == 0:")
json.dump(M, open(os.path.join(os.path.dirname(os.path.abspath(__file__)), 'mutants.json'), 'w'), indent=1)
print(len(M), 'mutants')
