#!/usr/bin/env python3
"""Source of selftest/mutants.json.  An edit replaces the nth occurrence of a single-line substring (line endings untouched)."""
import json, os
M = []
def mut(name, props, file, find, repl, nth=0, benign=False, desc='', more=()):
    edits = [{'file': file, 'find': find, 'repl': repl, 'nth': nth}] + [dict(file=f, find=a, repl=b, nth=n) for f, a, b, n in more]
    M.append({'name': name, 'props': props if isinstance(props, list) else [props], 'edits': edits, 'benign': benign, 'desc': desc})
G = 'lib_guesser/pcfg_grammar.py'; Q = 'lib_guesser/priority_queue.py'; CS = 'lib_guesser/cracking_session.py'; GIO = 'lib_guesser/grammar_io.py'
MC = 'lib_guesser/omen/markov_cracker.py'; GS = 'lib_guesser/omen/guess_structure.py'; OPT = 'lib_guesser/omen/optimizer.py'

# ---- reverts of the fixes
mut('revert-F-C08', 'C08', G, "if new_parent_prob <= max_prob:", "if new_parent_prob < max_prob:")
mut('revert-F-C15a', 'C15', CS, "self.save_config.remove_option('guessing_info', 'omen_guess_number')", "pass")
mut('revert-F-C10', 'C10', MC, "range(0,self.max_level + 1)", "range(0,self.max_level)")
mut('revert-F-C04', ['C04', 'C02'], GIO, "if group_ties and prob == prev_prob:", "if prob == prev_prob:")
# ---- C01 / C02
mut('c01-lt-benign', ['C01', 'C02'], Q, "return self.pt_item['prob'] > other.pt_item['prob']", "return self.pt_item['prob'] >= other.pt_item['prob']", benign=True)
mut('c01-lt-inverted', 'C01', Q, "return self.pt_item['prob'] > other.pt_item['prob']", "return self.pt_item['prob'] < other.pt_item['prob']")
mut('c01-findprob-wrong-factor', 'C01', G, "prob *= self.grammar[pt_type][index]['prob']", "prob *= self.grammar[pt_type][min(index, 2)]['prob']", desc='indices above 2 priced like index 2')
mut('c02-tiebreak-reversed', 'C02', G, "if pos < parent_pos:", "if pos > parent_pos:", benign=True, desc='any consistent tie-break among equally probable parents keeps exactly-once')
mut('c02-tiebreak-removed', 'C02', G, "if pos < parent_pos:", "if False:", desc='every tied parent adopts the child -> duplicates')
mut('c02-lower-parent-le', 'C02', G, "if new_parent_prob < parent_prob:", "if new_parent_prob <= parent_prob:")
mut('c02-children-bound', 'C02', G, "if len(self.grammar[parent_type]) == parent_index +1:", "if len(self.grammar[parent_type]) == parent_index +2:", nth=0)
mut('c02-skip-calling-parent-dropped', 'C02', G, "            if pos == parent_pos:\r\n                continue", "            if pos == parent_pos and False:\r\n                continue", benign=True, desc='calling parent compared with itself: equal prob, pos < parent_pos false -> no effect')
# ---- C04
mut('c04-mask-on-head', 'C04', G, "start_word = [cur_guess[:- mask_len]]", "start_word = [cur_guess[mask_len:]]", more=[(G, "end_word = cur_guess[- mask_len:]", "end_word = cur_guess[:mask_len]", 0)])
mut('c04-count-off-by-one', 'C04', G, "        return num_guesses\r\n\r\n\r\n    def _honeyword_recursive_guess", "        return num_guesses + (1 if len(pt) > 2 and num_guesses > 3 else 0)\r\n\r\n\r\n    def _honeyword_recursive_guess")
# ---- C08
mut('c08-maxprob-lt', 'C08', G, "elif parent_prob <= max_prob:", "elif parent_prob < max_prob:")
mut('c08-left-index-zero', 'C08', G, "save_function, left_index = pos)", "save_function, left_index = 0)")
mut('c08-save-after-break', 'C08', CS, "                self._save_session()\n                print(\"Exiting...\",file=sys.stderr)\n                break", "                print(\"Exiting...\",file=sys.stderr)\n                break")
# ---- C10
mut('c10-opt-live-list', 'C10', OPT, "return True, self.custom_copy( self.tmto_lookup[length][ip_ngram][target_level] )", "return True, self.tmto_lookup[length][ip_ngram][target_level]")
mut('c10-findcp-gt', 'C10', GS, "while top_level >= bottom_level:", "while top_level > bottom_level:")
mut('c10-ip-not-reset', 'C10', MC, "self.cur_ip  = [self.start_ip, 0]", "self.cur_ip  = [self.cur_ip[0], 0]", nth=1, desc='initial n-gram level not reset when the length advances')
# ---- C15
mut('c15-parse-tree-not-restored', 'C15', MC, "self.cur_guess.parse_tree = parse_tree", "pass", desc='resume restarts the current (length, initial n-gram) block from its first string')
mut('c15-save-resets-last-index', 'C15', MC, "pickle.dump(self.cur_guess.parse_tree, file)", "pickle.dump([x[:2] + [0] for x in self.cur_guess.parse_tree], file)", desc='saved parse tree loses the per-position indices')
mut('c15-quit-honoured-one-guess-late', 'C15', G, "            if self.should_exit:", "            if self.should_exit and num_guesses > 1:", benign=True, desc='quit inside a level honoured from the 2nd guess on: stop position moves, nothing lost or repeated')
mut('c15-restore-level-minus-one', 'C15', MC, "            self.target_level = pickle.load(file)", "            self.target_level = max(0, pickle.load(file) - 0)", benign=True)
# ---- C12
mut('revert-F-C12', 'C12', CS, "if self.pcfg.should_exit:", "if not user_thread.is_alive():")
M.append({'name': 'revert-F-C12b', 'props': ['C12'], 'benign': False, 'desc': 'status report failure ends the helper thread again',
          'edits': [{'file': CS, 'old': "            try:\n                report.print_status(pcfg)\n            except Exception as msg:\n                print(\"Unable to display the status report: \" + str(msg),file=sys.stderr)\n",
                     'new': "            report.print_status(pcfg)\n"}]})
mut('c12-any-input-quits', 'C12', CS, "if user_input == 'q':", "if user_input:")
mut('c12-quit-mid-preterminal', 'C12', G, "                    self.print_guess(new_guess)", "                    self.print_guess(new_guess)\r\n                    if self.should_exit: return num_guesses", nth=1)
mut('c12-no-save-on-quit', 'C12', CS, "                self._save_session()\n                print(\"Exiting...\",file=sys.stderr)\n                break", "                print(\"Exiting...\",file=sys.stderr)\n                break")
mut('c12-status-resets-counter', ['C12'], 'lib_guesser/status_report.py', "        status_item = pcfg.get_status(static_pt_item['pt'])", "        status_item = pcfg.get_status(static_pt_item['pt']); pcfg.omen_optimizer.tmto_lookup[2].clear()", benign=True, desc='status request clears part of the OMEN cache: no effect on the stream (C10)')
# ---- C09
mut('revert-F-C09', 'C09', 'lib_guesser/banner_info.py', "    print(file=sys.stderr)", "    print()")
mut('revert-F-C09b-save', 'C09', CS, 'print ("Error writing sessiong restore file: " + self.save_filename, file=sys.stderr)', 'print ("Error writing sessiong restore file: " + self.save_filename)')
mut('c09-limit-lt-zero', 'C09', G, "                        if limit == 0:\r\n                            return num_guesses", "                        if limit < 0:\r\n                            return num_guesses")
mut('c09-limit-not-decremented-in-C', 'C09', G, "                        limit = limit - num_recursive_guesses", "                        limit = limit", nth=0)
mut('c09-stray-print', 'C09', Q, "        self.max_probability = queue_item.pt_item['prob']", "        self.max_probability = queue_item.pt_item['prob']; print('') if len(self.p_queue) == 7 else None")
mut('c09-omen-limit-off-by-one', 'C09', G, "\r\n                limit = limit - 1\r\n", "\r\n                limit = limit - (1 if num_guesses > 1 else 0)\r\n")
# ---- C14
mut('revert-F-C14a', 'C14', GIO, "                # Reset the file pointer\r\n                file.seek(0)", "                # Reset the file pointer\r\n                pass")
mut('c14-skipcase-upper', 'C14', GIO, "'values': ['L'*length],", "'values': ['U'*length],")
mut('c14-totalprob-not-first', 'C14', GIO, "prob = float(split_values[1]) / total_prob", "prob = float(split_values[1]) / (total_prob if base_structures else 1.0)")
mut('c14-load-ignores-saved-flags', 'C14', 'pcfg_guesser.py', "        program_info['skip_brute'] = save_config.getboolean('rule_info','skip_brute')", "        pass")
mut('c14-skipbrute-keeps-M', 'C14', GIO, "if not skip_brute or 'M' not in new_base['replacements']:", "if not skip_brute or 'M' not in new_base['replacements'] or len(base_structures) == 0:")
# ---- C03 / C06 (trainer side)
AD = 'lib_trainer/detection_rules/alpha_detection.py'; PP = 'lib_trainer/pcfg_password_parser.py'; CP = 'lib_trainer/calculate_probabilities.py'; RT = 'lib_trainer/run_trainer.py'
mut('c03-alpha-saved-unlowered', ['C06'], AD, "working_string[start_pos:end_pos + 1]", "section[0][start_pos:end_pos + 1]")
mut('c03-mask-isupper-to-not-islower', 'C03', AD, "if letter.isupper():", "if not letter.islower():", benign=True, desc='differs only for caseless letters, where U and L masks give the same string')
mut('c03-mask-first-letter-only', ['C03', 'C06'], AD, "if letter.isupper():", "if letter.isupper() and len(mask) == 0:")
mut('c03-guesser-C-before-A', 'C03', GIO, "replacement.insert(i+1,'C' + len_str)", "replacement.insert(i+1,'C' + len_str) if i % 2 == 0 else replacement.insert(i+1, 'C' + len_str) or replacement.__setitem__(i+1, replacement[i+1])", benign=True)
mut('c06-most-common-to-items', 'C06', CP, "prob_list = counter.most_common()", "prob_list = list(counter.items())")
mut('c06-total-off', 'C06', CP, "total_count = sum(counter.values())", "total_count = sum(counter.values()) + (1 if len(counter) > 3 else 0)")
mut('c06-coverage-formula', 'C06', RT, "markov_instances = (num_valid_passwords / program_info['coverage']) - num_valid_passwords", "markov_instances = num_valid_passwords * (1 - program_info['coverage'])")
mut('c06-unsupported-counted', 'C06', PP, "        if is_supported:", "        if is_supported or len(section_list) > 2:")
mut('c06-len-index-off', ['C06', 'C03'], PP, "input_counter[len(item)][item] +=1", "input_counter[len(item) if len(item) < 6 else 6][item] +=1", nth=0)
mut('c06-config-list-from-other-counter', 'C06', 'lib_trainer/config_file.py', "add_digits(config,create_filename_list(pcfg_parser.count_digits))", "add_digits(config,create_filename_list(pcfg_parser.count_other))")
# ---- C05
DR = 'lib_trainer/detection_rules/'
mut('c05-digit-endpos-swapped', 'C05', DR + 'digit_detection.py', "                    end_pos = pos - 1", "                    end_pos = pos - 1 if pos > 1 else pos")
mut('c05-year-next-digit-check-off', 'C05', DR + 'year_detection.py', "if working_string[start_index + 4].isdigit():", "if working_string[start_index + 4].isdigit() and start_index > 0:")
mut('c05-year-prev-digit-check-dropped', 'C05', DR + 'year_detection.py', "if working_string[start_index -1].isdigit():", "if working_string[start_index -1].isdigit() and start_index > 2:")
mut('c05-context-drops-suffix', 'C05', DR + 'context_sensitive_detection.py', "if start_index + len(replacement) < len(working_string):", "if start_index + len(replacement) < len(working_string) - 1:")
mut('c05-context-hash1-lookahead', 'C05', DR + 'context_sensitive_detection.py', "if working_string[start_index + 3].isdigit():", "if working_string[start_index + 2].isdigit():", benign=True, desc='changes which strings count as #1 context, both readings are sound tilings')
mut('c05-multiword-threshold-gt', 'C05', DR + 'multiword_detector.py', "if self._get_count(alpha_string[0:index]) >= self.threshold:", "if self._get_count(alpha_string[0:index]) >= self.threshold - 1:")
mut('c05-multiword-minlen', 'C05', DR + 'multiword_detector.py', "for index in range(max_index, self.min_len - 1, -1):", "for index in range(max_index + 1, self.min_len - 2, -1):", benign=True, desc='3-letter parts are never counted by train(), so the wider range changes nothing')
mut('c05-keyboard-classes', 'C05', DR + 'keyboard_walk.py', "if (alpha + special + digit) >= 2:", "if (alpha + special + digit) >= 1:")
mut('c05-keyboard-minrun', 'C05', DR + 'keyboard_walk.py', "def detect_keyboard_walk(password, min_keyboard_run=4):", "def detect_keyboard_walk(password, min_keyboard_run=3):")
mut('c05-alpha-mask-offset', 'C05', AD, "for letter in section[0][current_start:current_start+len(word)]:", "for letter in section[0][current_start:current_start+len(word)][::-1]:", desc='mask reversed: counters no longer the tally (C06 catches the file), segments stay sound')
mut('c05-other-swallows-digit', 'C05', DR + 'digit_detection.py', "        if value.isdigit():", "        if value.isdigit() and value != '0':", more=[(DR + 'digit_detection.py', "if not value.isdigit() or pos ==", "if not (value.isdigit() and value != '0') or pos ==", 0)])
mut('c05-website-keeps-case', 'C05', DR + 'website_detection.py', "parsing.append((working_string[start_of_url:end_of_url],'W'))", "parsing.append((section[0][start_of_url:end_of_url],'W'))", desc='W segment kept in original case although the property says website segments are kept lower-cased')
mut('c05-prince-counts-twice', 'C05', 'lib_trainer/prince_metrics.py', "count_prince[item[1]] += 1", "count_prince[item[1]] += 1 if item[1][0] != 'Y' else 2")
# ---- C19
TFI = 'lib_trainer/trainer_file_input.py'
M.append({'name': 'revert-F-C19', 'props': ['C19'], 'benign': False, 'desc': 'codec readline pieces no longer re-joined',
          'edits': [{'file': TFI, 'find': "while password and password[-1] not in '\\r\\n':", 'repl': "while False:", 'nth': 0}]})
mut('revert-F-C07a', ['C19'], TFI, 'if u"\\u2029" in input_password:', 'if False:')
mut('c19-rstrip-all', 'C19', TFI, "clean_password = password.rstrip('\\r\\n')", "clean_password = password.rstrip()")
mut('c19-hex-wrong-encoding', 'C19', TFI, "clean_password = bytes.fromhex(clean_password[5:-1]).decode(self.encoding)", "clean_password = bytes.fromhex(clean_password[5:-1]).decode('utf-8')")
mut('c19-yield-n-minus-1', 'C19', TFI, "for x in range(0, n):", "for x in range(0, n if n < 3 else n - 1):")
mut('c19-pass3-no-prefix', 'C19', RT, "                    program_info['prefixcount'])", "                    False)", nth=2)
mut('c19-dup-detection-skips', 'C19', TFI, "self.num_passwords += n", "self.num_passwords += 1")
mut('c19-prefix-lstrip-password', 'C19', TFI, "clean_password = ' '.join(clean_password.lstrip().split(' ')[1:])", "clean_password = ' '.join(clean_password.lstrip().split(' ')[1:]).lstrip()")
# ---- C07
mut('revert-F-C07a-c07', 'C07', TFI, 'if u"\\u2029" in input_password:', 'if False:')
mut('revert-F-C07b', ['C07'], 'lib_scorer/omen_scorer.py', "with open(full_file_path, 'r', encoding=self.encoding) as file:", "with open(full_file_path, 'r') as file:", nth=0)
mut('c07-guesser-strip', 'C07', GIO, 'split_values = line.rstrip().split("\\t")', 'split_values = line.strip().split("\\t")')
mut('c07-scorer-strip', 'C07', 'lib_scorer/grammar_io.py', 'split_values = value.rstrip().split("\\t")', 'split_values = value.strip().split("\\t")')
mut('c07-trainer-strips-value', 'C07', 'lib_trainer/save_pcfg_data.py', "datafile.write(str(item[0]) + '\\t' + str(item[1])+'\\n')", "datafile.write(str(item[0]).strip() + '\\t' + str(item[1])+'\\n')")
mut('c07-omen-loader-strip', 'C07', 'lib_guesser/omen/input_file_io.py', "line = line.rstrip('\\n\\r').split('\\t')", "line = line.strip().split('\\t')")
mut('c07-valid-allows-nel', 'C07', TFI, 'if u"\\u0085" in input_password:', 'if False:')
mut('c07-config-stale-filelist', ['C07', 'C06'], 'lib_trainer/config_file.py', 'filenames[i] = str(name) + ".txt"', 'filenames[i] = str(name if name < 7 else 7) + ".txt"')
# ---- C11 / C18
EP = 'lib_trainer/omen/evaluate_password.py'; OS_ = 'lib_scorer/omen_scorer.py'; IFI = 'lib_guesser/omen/input_file_io.py'
mut('revert-F-C18-a', 'C18', EP, "if level_minus_ip >= 0:", "if level_minus_ip > 0:")
mut('revert-F-C18-b', 'C18', EP, "if length < omen_trainer.ngram:", "if length <= omen_trainer.ngram:")
mut('revert-F-C07b-c11', 'C11', OS_, "with open(full_file_path, 'r', encoding=self.encoding) as file:", "with open(full_file_path, 'r') as file:", nth=1)
mut('c11-guesser-minsize', ['C11', 'C18'], IFI, "if (cur_length >= min_size):", "if (cur_length > min_size):")
mut('c11-scorer-endpos', 'C11', OS_, "while end_pos <= pass_len:", "while end_pos < pass_len:")
mut('c11-trainer-ln-index', 'C11', EP, "ln_level = omen_trainer.ln_lookup[pw_len - 1][0]", "ln_level = omen_trainer.ln_lookup[min(pw_len, omen_trainer.max_length - 1)][0]")
mut('c11-scorer-maxlen', 'C11', OS_, "if pass_len < self.ngram or pass_len > self.max_len:", "if pass_len < self.ngram or pass_len >= self.max_len:")
mut('c18-keyspace-cache-key', 'C18', EP, "if letter_level[0] == level:", "if letter_level[0] <= level:")
mut('c18-prob-uses-total-lines', 'C18', 'lib_trainer/omen/omen_file_output.py', "percentage_cracked = num_instances / num_valid_passwords", "percentage_cracked = num_instances / (num_valid_passwords + 1)")
mut('c11-levels-tally-off', 'C11', RT, "omen_levels_count[level] += 1", "omen_levels_count[max(level, 0)] += 1")
# ---- C13
PS = 'lib_scorer/pcfg_password_scorer.py'
mut('c13-keyerror-to-small', 'C13', PS, "            cur_prob = 0", "            cur_prob = 1e-9")
mut('c13-email-early-return-removed', 'C13', PS, "if category in ['e', 'w']:", "if category in ['w']:")
mut('c13-mask-factor-dropped', 'C13', PS, "cur_prob *= self.count_alpha_masks[len(item)][item]", "cur_prob *= 1.0")
mut('c13-history-dependence', 'C13', PS, "        omen_score = self.omen.parse(password)", "        omen_score = self.omen.parse(password); self.multiword_detector.train(password); self.multiword_detector.train(password)")
mut('c13-category-w-for-email', 'C13', PS, "            category = 'e'", "            category = 'w'")
# ---- C16
M.append({'name': 'revert-F-C16', 'props': ['C16'], 'benign': False, 'desc': 'draw not scaled by the total again',
          'edits': [{'file': G, 'find': "prob_target = random.random() * total_prob", 'repl': "prob_target = random.random()", 'nth': 0}]})
mut('c16-weight-without-size', 'C16', G, "cur_prob += self.grammar[pt_type][index]['prob'] * len(self.grammar[pt_type][index]['values'])", "cur_prob += self.grammar[pt_type][index]['prob']")
mut('c16-ge-to-gt', 'C16', G, "                if cur_prob >= prob_target:", "                if cur_prob > prob_target:", benign=True, desc='only differs when u x total equals a running sum exactly (either neighbour is accepted there); u x total never reaches the total for u < 1')
mut('c16-no-reseed', 'C16', 'lib_guesser/honeyword_session.py', "            random.seed(self.random_seed)", "            pass")
mut('c16-mask-choice-fixed', 'C16', G, "            mask = random.choice(self.grammar[pt_type][index]['values'])", "            mask = self.grammar[pt_type][index]['values'][0]")
mut('c16-honey-limit-off', 'C16', 'lib_guesser/honeyword_session.py', "                    if limit <= 0:", "                    if limit < 0:")
mut('c16-base-first-region-bias', 'C16', G, "            if cur_prob >= prob_target:\r\n                for replacement", "            if cur_prob >= prob_target * 0.9:\r\n                for replacement")
# ---- C17 / C20
mut('revert-F-C17', 'C17', 'lib_princeling/wordlist_generation.py', "limit = max_size - num_generated_guesses", "limit = None")
mut('c17-while-le', 'C17', 'lib_princeling/wordlist_generation.py', "while max_size is None or num_generated_guesses < max_size:", "while max_size is None or num_generated_guesses <= max_size:")
mut('c17-file-drops-newline', 'C17', G, "            self.output_file.write(guess + '\\n')", "            self.output_file.write(guess + '\\n') if guess else None", benign=True)
mut('c17-file-encoding-errors', 'C17', G, "            self.output_file.write(guess + '\\n')", "            self.output_file.write(guess.strip() + '\\n')")
ER = 'edit_rules.py'
mut('c20-year-as-one', 'C20', ER, "                total_length += 4", "                total_length += 1")
mut('c20-min-exclusive', 'C20', ER, "        elif total_length >= min_length and total_length + extra_length <= max_length:", "        elif total_length > min_length and total_length + extra_length <= max_length:")
mut('c20-terminal-whole-label', 'C20', ER, "            if x[0] not in terminal_set:", "            if x not in terminal_set and x[0] not in terminal_set[:1]:")
mut('c20-copy-swapped', 'C20', ER, "        config['rule'] = config['copy']", "        pass")
mut('c20-renormalise', 'C20', ER, "            return_grammar += line\n            return_grammar += '\\n'", "            return_grammar += line.split('\\t')[0] + '\\t' + str(float(prob))\n            return_grammar += '\\n'", benign=True, desc='str(float(text)) round-trips repr output: bytes unchanged')
mut('c20-regex-any', 'C20', ER, "                stop = True\n                break", "                stop = len(grammar_regex) == 1\n                break")
mut('c20-touches-other-file', 'C20', ER, "        print('Done editing, writing back results.')", "        print('Done editing, writing back results.'); open(grammar_file.replace('grammar.txt', 'raw_grammar.txt'), 'a').write('')", benign=False)
mut('c16-total-by-builtin-sum', 'C16', G, "        prob_target = random.random() * total_prob", "        prob_target = random.random() * sum(item['prob'] for item in self.base)", desc='builtin sum() is compensated on 3.12 and can exceed the naive running sum by an ulp: a draw next to 1 selects nothing')
mut('revert-F-C05', 'C05', AD, "if len(working_string) != len(section[0]):", "if False:")
mut('revert-F-C05-email', 'C05', DR + 'email_detection.py', "if len(working_string) != len(section[0]):", "if False:")
mut('revert-F-C13', 'C13', PS, "                if rebuilt != original:", "                if False:")
mut('revert-F-C15b', ['C15', 'C12'], CS, "                if self.pcfg.omen_exit:", "                if False:")
mut('revert-F-C16b', ['C02'], RT, "if not any(omen_keyspace.values()):", "if not omen_keyspace.most_common(1):")
# ---- benign refactorings that must leave every named check silent
ALLG = ['C01', 'C02', 'C04', 'C08', 'C09', 'C13', 'C14', 'C15', 'C17']
mut('benign-findprob-reversed', ALLG, G, "        for item in pt:\r\n            pt_type = item[0]", "        for item in reversed(pt):\r\n            pt_type = item[0]", benign=True, desc='product taken right to left: last-bit differences only')
mut('benign-prob-times-reciprocal', ['C03', 'C06', 'C13', 'C19', 'C01'], CP, "prob_list[index] = (value[0],value[1]/total_count)", "prob_list[index] = (value[0],value[1] * (1/total_count))", benign=True, desc='count * (1/total): last-bit differences in every written probability')
mut('benign-print-via-write', ['C09', 'C12', 'C16'], G, "                print(guess)", "                sys.stdout.write(guess + '\\n')", benign=True)
mut('benign-queue-le', ALLG[:5], Q, "        return self.pt_item['prob'] >= other.pt_item['prob']", "        return not (self.pt_item['prob'] < other.pt_item['prob'])", benign=True)
mut('revert-F-C05b', 'C05', DR + 'keyboard_walk.py', "if sys.getrecursionlimit() < len(password) + 1000:", "if False:", desc='only the thorough tier generates the 1000-walk strings: run with --tier thorough')
mut('revert-F-C20', 'C20', ER, "        elif total_length >= min_length and total_length + extra_length <= max_length:", "        elif total_length >= min_length and total_length <= max_length:")
# ---- input classes added in the sixth wave of seeded changes
mut('c11-bailout-above-max-level', ['C11', 'C18'], GS, "        if length == 1:\r\n            cp_index, cp_level = self._find_cp(ip, target_level, target_level)", "        if target_level > self.max_level:\r\n            return None\r\n        if length == 1:\r\n            cp_index, cp_level = self._find_cp(ip, target_level, target_level)", desc='true for the last transition only: strings whose transition levels add up to more than 10 are never generated')
mut('c12-one-read-one-command', 'C12', CS, "        user_input = input()", "        user_input = (lambda b: b.decode(errors='replace').rstrip('\\r\\n') if b else sys.exit())(__import__('os').read(0, 1024))", desc='two requests arriving in one read are one (unknown) command: the quit is lost')
mut('c17-loader-skips-exponent-notation', ['C17', 'C02'], GIO, "                value = split_values[0]\r\n                prob = float(split_values[1]) / total_prob", "                if not split_values[1].replace('.', '', 1).isdigit():\r\n                    continue\r\n                value = split_values[0]\r\n                prob = float(split_values[1]) / total_prob", desc='probabilities below 1e-4 are written in exponent notation and silently skipped')
mut('c19-multiword-read-with-prefixcount', 'C19', RT, "            program_info['multiword'],\r\n            program_info['encoding']\r\n        )", "            program_info['multiword'],\r\n            program_info['encoding'],\r\n            program_info['prefixcount']\r\n        )")
mut('c20-copy-exists-falls-through', 'C20', ER, "        _create_copy(os.path.join(config.get('rules_dir'), config.get('rule')),\n                    os.path.join(config.get('rules_dir'), config.get('copy')))\n        config['rule'] = config['copy']", "        try:\n            _create_copy(os.path.join(config.get('rules_dir'), config.get('rule')),\n                    os.path.join(config.get('rules_dir'), config.get('copy')))\n            config['rule'] = config['copy']\n        except FileExistsError:\n            pass")
mut('benign-own-random-generator', 'C16', G, "import random", "import random\r\nRNG = random.Random()", benign=True, desc='all draws of the guesser moved to a generator object of its own, seeded by the session: distribution and reproducibility unchanged',
    more=[(G, "            mask = random.choice(self.grammar[pt_type][index]['values'])", "            mask = RNG.choice(self.grammar[pt_type][index]['values'])", 0),
          (G, "            item = random.choice(self.grammar[pt_type][index]['values'])", "            item = RNG.choice(self.grammar[pt_type][index]['values'])", 0),
          (G, "        prob_target = random.random() * total_prob", "        prob_target = RNG.random() * total_prob", 0),
          (G, "            prob_target = random.random() * total_prob", "            prob_target = RNG.random() * total_prob", 0),
          ('lib_guesser/honeyword_session.py', "            random.seed(self.random_seed)", "            random.seed(self.random_seed); __import__('lib_guesser.pcfg_grammar', fromlist=['RNG']).RNG.seed(self.random_seed)", 0)])
mut('benign-c20-atomic-write', 'C20', ER, "    with open(grammar_file, 'w') as grammar_fp:\n        print('Done editing, writing back results.')\n        for line in grammar:\n            grammar_fp.write(line)\n", "    with open(grammar_file + '.tmp', 'w') as grammar_fp:\n        print('Done editing, writing back results.')\n        for line in grammar:\n            grammar_fp.write(line)\n    os.replace(grammar_file + '.tmp', grammar_file)\n", benign=True, desc='grammar.txt written through a scratch file and renamed into place: no other file of the ruleset is touched')
mut('revert-F-C17b', 'C17', G, "        try:\r\n            self.output_file.write(guess + '\\n')\r\n        except UnicodeEncodeError:\r\n            pass", "        self.output_file.write(guess)\r\n        self.output_file.write('\\n')")
mut('revert-F-C07c', 'C07', 'lib_guesser/grammar_io.py', "    with open(filename, 'r', encoding=encoding) as file:\r\n        # Read though all the lines in the file", "    with open(filename, 'r') as file:\r\n        # Read though all the lines in the file")
mut('revert-F-C09c', 'C09', G, "        self.omen_guess_num = omen_guess_num\r\n\r\n        return self.omen_generate_guesses(markov_cracker, limit)\r\n", "        self.omen_guess_num = omen_guess_num\r\n\r\n        return self.omen_generate_guesses(markov_cracker)\r\n")
json.dump(M, open(os.path.join(os.path.dirname(os.path.abspath(__file__)), 'mutants.json'), 'w'), indent=1)
print(len(M), 'mutants')
