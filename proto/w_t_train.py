import sys, shutil, os, io, contextlib, time
sys.path.insert(0,'/tmp/scratch/wt')
from lib_trainer.run_trainer import run_trainer
from lib_trainer.trainer_file_output import create_rule_folders
MAXLEN=21
def train(pws, d, ngram=4, coverage=0.6, enc='utf-8', alphabet=100, prefix=False, raw=None):
    shutil.rmtree(d,ignore_errors=True); os.makedirs(d)
    tf=d+'.train.txt'
    if raw is None:
        with open(tf,'w',encoding=enc,newline='') as f:
            for p in pws: f.write(p+'\n')
    else:
        open(tf,'wb').write(raw)
    pi={'name':'PCFG Trainer','version':'4.7','author':'x','contact':'x','rule_name':'X','training_file':tf,'encoding':enc,'comments':'','save_sensitive':True,'prefixcount':prefix,'ngram':ngram,'alphabet_size':alphabet,'coverage':coverage,'max_len':MAXLEN,'multiword':False,'smoothing':0.01}
    create_rule_folders(d)
    out=io.StringIO()
    with contextlib.redirect_stdout(out):
        ok=run_trainer(pi,d)
    return ok,out.getvalue()
if __name__=='__main__':
    pws=['password1']*6+['love']*6+['lovepassword','Password1!','abcd','abcd','abce','1qaz2wsx','test2019','i<3you','bob@gmail.com','İ@a.comx','www.google.com1','xyzw','PaSSword#1']
    t=time.time(); ok,out=train(pws,'/tmp/scratch/tr1'); print(ok,time.time()-t)
    print(out[-600:])
    for root,ds,fs in os.walk('/tmp/scratch/tr1'):
        for f in sorted(fs):
            p=os.path.join(root,f); print('==',p[len('/tmp/scratch/tr1/'):]); print(open(p,encoding='utf-8').read()[:400])
