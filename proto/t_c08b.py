import sys, shutil, configparser, random, itertools, copy
sys.path.insert(0,'/repo'); sys.path.insert(0,'/tmp/scratch')
from mk import mk_ruleset
from lib_guesser.pcfg_grammar import PcfgGrammar
from lib_guesser.priority_queue import PcfgQueue
from collections import Counter
FIX = len(sys.argv)>1
def is_parent_around(self, pt_item, max_prob):
    child = pt_item['pt']
    for pos, item in enumerate(child):
        if item[1] == 0: continue
        new_parent = copy.copy(child)
        new_parent[pos] = (new_parent[pos][0], new_parent[pos][1]-1)
        if self._find_prob(new_parent, pt_item['base_prob']) <= max_prob: return True
    return False
if FIX: PcfgGrammar.is_parent_around = is_parent_around
rnd=random.Random(1)
bad=0; tot=0
for trial in range(300):
    d='/tmp/scratch/rs2'; shutil.rmtree(d,ignore_errors=True)
    nvar=rnd.randint(1,3)
    def probs(n):
        pool=[0.5,0.25,0.125,0.0625,0.3,0.2,0.1] 
        ps=sorted(set(rnd.sample(pool,n)),reverse=True); return ps
    terms={}
    names=['D1','D2','O1']
    struct=''.join(names[:nvar])
    if rnd.random()<0.3 and nvar>=2: struct='D1D1'+('O1' if nvar==3 else '')
    for nm in set(names[:nvar]):
        ps=probs(rnd.randint(1,4))
        L=int(nm[1])
        terms[nm]=[(str(i)*L if nm[0]=='D' else '!@#$'[i], p) for i,p in enumerate(ps)]
    base=[(struct,0.5)]
    if rnd.random()<0.5: base.append((names[0],0.25))
    mk_ruleset(d,base,terms)
    g=PcfgGrammar('x',d,'4.7')
    q=PcfgQueue(g); U=[]
    while True:
        it=q.next()
        if it is None: break
        U.append(((it['base_prob'],tuple(it['pt'])),it['prob']))
    for k in range(len(U)):
        cfg=configparser.ConfigParser(); cfg.add_section('guessing_info')
        cfg.set('guessing_info','min_probability','0.0'); cfg.set('guessing_info','max_probability',str(U[k][1]))
        q=PcfgQueue(g,cfg); R=[]
        while True:
            it=q.next()
            if it is None: break
            R.append(((it['base_prob'],tuple(it['pt'])),it['prob']))
        cnt=Counter(r[0] for r in R)
        exp=set(u[0] for u in U[k:])
        missing=exp-set(cnt)
        pm=dict(U)
        baddup=[(p,c) for p,c in cnt.items() if c>1 and pm[p]!=U[k][1]]
        extra=[p for p in cnt if pm[p]>U[k][1]]
        order=all(R[i][1]>=R[i+1][1] for i in range(len(R)-1))
        tot+=1
        if missing or baddup or extra or not order:
            bad+=1
            if bad<4: print('BAD',base,terms,k,U[k],'missing',missing,'baddup',baddup,'extra',extra,order)
print('total',tot,'bad',bad)
