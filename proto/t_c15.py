# quick confirmation of the stale omen_guess_number and "M last -> no save" by reading configparser behaviour
import configparser
c=configparser.ConfigParser(); c.add_section('guessing_info'); c.set('guessing_info','omen_guess_number','3')
print(c.has_option('guessing_info','omen_guess_number'))
