import sys, random, shutil, math, itertools, collections
sys.path.insert(0,'/tmp/scratch/wt'); sys.path.insert(0,'/tmp/scratch')
from mk import mk_ruleset
from lib_guesser.pcfg_grammar import PcfgGrammar
import lib_guesser.pcfg_grammar as pg
from fractions import Fraction
rnd=random.Random(3)
class Script:
    def __init__(s): s.u=[]; s.c=[]
    def random(s): return s.u.pop(0)
    def choice(s,seq): return seq[s.c.pop(0)]
    def __getattr__(s,n): return getattr(random,n)
scr=Script(); pg.random=scr
bad=0; regions=0
for t in range(40):
    d='/tmp/scratch/rs16'; shutil.rmtree(d,ignore_errors=True)
    def norm(n):
        w=[rnd.randint(1,9) for _ in range(n)]; w.sort(reverse=True); s=sum(w); return [x/s for x in w]
    # groups: distinct probs with sizes; file rows: prob per value such that sum(prob*size)=1
    def groups(n):
        sizes=[rnd.randint(1,3) for _ in range(n)]; w=sorted(set(rnd.sample(range(1,30),n)),reverse=True)
        tot=sum(a*b for a,b in zip(w,sizes)); return [(wi/tot,si) for wi,si in zip(w,sizes)]
    terms={}
    for nm in ['D1','O1']:
        rows=[]
        for gi,(p,sz) in enumerate(groups(rnd.randint(1,4))):
            for vi in range(sz): rows.append(((('0123456789' if nm=='D1' else '!@#$%^&*()')[(gi*3+vi)%10]),p))
        terms[nm]=rows
    bp=norm(3); base=list(zip(['D1O1','O1','D1'],bp))
    mk_ruleset(d,base,terms)
    g=PcfgGrammar('x',d,'4.7')
    # breakpoints for base
    def sweep(cum):
        pts={0.0,1-2**-53}
        for c in cum:
            for x in (c, math.nextafter(c,0), math.nextafter(c,2)):
                if 0<=x<1: pts.add(x)
        pts=sorted(pts); mids=[(a+b)/2 for a,b in zip(pts,pts[1:])]
        return sorted(set(pts+mids))
    cumb=list(itertools.accumulate(b['prob'] for b in g.base))
    for u0 in sweep(cumb):
        # expected base index: first i with cum_i >= u0
        exp=[i for i,c in enumerate(cumb) if c>=u0]
        reps=g.base[exp[0]]['replacements'] if exp else None
        if reps is None:
            scr.u=[u0]
            try: it=g.random_walk(); ok=(it['pt']==[])
            except Exception as e: ok=False
            regions+=1
            continue
        # positions: use midpoint draws
        cums=[list(itertools.accumulate(gr['prob']*len(gr['values']) for gr in g.grammar[r])) for r in reps]
        for us in itertools.product(*[sweep(c)[:7] for c in cums]):
            scr.u=[u0]+list(us)
            it=g.random_walk(); regions+=1
            expi=[]
            for u,c in zip(us,cums):
                e=[i for i,cc in enumerate(c) if cc>=u]; expi.append(e[0] if e else 0)
            if [x[0] for x in it['pt']]!=reps or [x[1] for x in it['pt']]!=expi: bad+=1; print('BAD',u0,us,it['pt'],reps,expi)
    # measure check: interval lengths
    tot=cumb[-1]
print('regions',regions,'bad',bad)
