import sys, random, itertools, collections
sys.path.insert(0,'/repo')
from lib_guesser.omen.markov_cracker import MarkovCracker
from lib_guesser.omen.optimizer import Optimizer
def gen_model(rnd):
    ngram=rnd.choice([2,2,3,3,4,5])
    alpha='abc'[:rnd.randint(1,3)]
    maxlvl=rnd.choice([1,2,3,10])
    def lv(): 
        return rnd.randint(0,maxlvl) if maxlvl<10 else rnd.choice([0,0,1,1,2,3,5,10])
    ipn=[''.join(t) for t in itertools.product(alpha,repeat=ngram-1)]
    dens=rnd.choice([0.3,0.6,1.0])
    ip={l:[] for l in range(11)}
    cp={}
    for g in ipn:
        if rnd.random()<dens or not any(ip.values()): ip[lv()].append(g)
        for c in alpha:
            if rnd.random()<dens:
                cp.setdefault(g,{}).setdefault(lv(),[]).append(c)
    ln={l:[] for l in range(11)}
    nlen=rnd.randint(1,4)
    for cl in rnd.sample(range(1,6),nlen):
        ln[lv()].append(cl)
    return dict(ngram=ngram,max_level=10,ip=ip,cp=cp,ln=ln,alphabet=list(alpha))
def brute(g, level):
    out=collections.Counter()
    for ll,cls in g['ln'].items():
        for cl in cls:
            for il,ips in g['ip'].items():
                for ipg in ips:
                    rem=level-ll-il
                    if rem<0: continue
                    def rec(prefix, cur, left, rem):
                        if left==0:
                            if rem==0: out[prefix]+=1
                            return
                        for lvl,chars in g['cp'].get(cur,{}).items():
                            if lvl<=rem:
                                for c in chars:
                                    rec(prefix+c,(cur+c)[1:] if len(cur)>0 else '',left-1,rem-lvl)
                    rec(ipg,ipg,cl,rem)
    return out
def run_level(g, level, opt):
    mc=MarkovCracker(g,level,opt); out=[]
    while True:
        x=mc.next_guess()
        if x is None: break
        out.append(x)
        if len(out)>200000: raise Exception('runaway')
    return out
rnd=random.Random(int(sys.argv[1]) if len(sys.argv)>1 else 0)
bad=0; n=0; nontriv=0
for t in range(int(sys.argv[2]) if len(sys.argv)>2 else 400):
    g=gen_model(rnd)
    opt=Optimizer(max_length=4)
    levels=list(range(0,13)); 
    if rnd.random()<0.5: rnd.shuffle(levels)
    for L in levels:
        try:
            got=run_level(g,L,opt)
        except Exception as e:
            print('EXC',repr(e),g,L); bad+=1; continue
        exp=brute(g,L)
        n+=1
        if len(exp)>1: nontriv+=1
        if collections.Counter(got)!=exp:
            bad+=1
            if bad<6: print('MISMATCH level',L,'ngram',g['ngram'],'got',len(got),'exp',sum(exp.values()),'missing',list((exp-collections.Counter(got)).items())[:5],'extra',list((collections.Counter(got)-exp).items())[:5]); print(g)
print('cases',n,'nontrivial',nontriv,'bad',bad)
