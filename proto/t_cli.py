import sys, shutil, subprocess
sys.path.insert(0,'/tmp/scratch')
from mk import mk_ruleset
d='/tmp/scratch/wt/Rules/T1'; shutil.rmtree(d,ignore_errors=True)
mk_ruleset(d,[('A3D1',0.6),('D1',0.4)],{'A3':[('cat',0.5),('dog',0.3),('pig',0.2)],'C3':[('LLL',0.75),('ULL',0.25)],'D1':[('1',0.5),('3',0.3),('2',0.2)]})
def run(args, stdin):
    p=subprocess.run(['/venv/bin/python','/tmp/scratch/wt/pcfg_guesser.py','-r','T1']+args, stdin=stdin, capture_output=True, timeout=60)
    return p
import os
p=run(['-s','s1'], subprocess.DEVNULL); print('devnull', repr(p.stdout[:80]), len(p.stdout.splitlines()))
r,w=os.pipe()
p=run(['-s','s2'], r); print('openpipe', repr(p.stdout[:80]), len(p.stdout.splitlines())); os.close(w); os.close(r)
p=run(['-s','s3','--skip_brute'], r if False else subprocess.PIPE); print('pipe-eof(closed after start)', len(p.stdout.splitlines()))
print(p.stderr.decode()[-300:])
