import sys, random, collections, os, io, contextlib, unicodedata
sys.path.insert(0,'/tmp/scratch/wt'); sys.path.insert(0,'/tmp/scratch')
import w_t_train as T
from lib_guesser.pcfg_grammar import PcfgGrammar
from lib_guesser.priority_queue import PcfgQueue
from lib_scorer.pcfg_password_scorer import PCFGPasswordScorer
from lib_scorer.grammar_io import load_grammar
rnd=random.Random(int(sys.argv[1]))
frags=['password','love','pass','word','1qaz','2wsx','!@#$','123','2019','1999','#1','No.1','<3','Mr.','é','ж','привет','йцук1','😀',' ','x','Q','zxcv','asdf5','9','0','-','_','Σοφία','ÑANDÚ','monkey','dragon','PaSS','bob@gmail.com','www.a.com','a.com','12','7','!!']
def gen(k=4):
    s=''
    for _ in range(rnd.randint(1,k)):
        f=rnd.choice(frags); r=rnd.random()
        if r<0.2: f=f.upper()
        elif r<0.3: f=f.capitalize()
        s+=f
    return s
def perturb(s):
    r=rnd.random(); 
    if not s: return s
    i=rnd.randrange(len(s))
    if r<0.25: return s[:i]+s[i].swapcase()+s[i+1:]
    if r<0.4: return s[:i]+rnd.choice('0123456789')+s[i+1:]
    if r<0.55: return s+rnd.choice(frags)
    if r<0.7: return rnd.choice(frags)+s
    if r<0.8: return s[:i]+s[i+1:]
    if r<0.9: return s[:i]+rnd.choice('!@. ')+s[i:]
    return s.upper()
def irreversible(s):
    for c in s:
        if c.lower()!=c and (len(c.lower())!=1 or c.lower().upper()!=c): return True
        if unicodedata.category(c)=='Lt': return True
    return False
tot=nz=bad=0; cats=collections.Counter()
for t in range(int(sys.argv[2])):
    base=[gen() for _ in range(rnd.randint(3,10))]
    pws=[]
    for b in base: pws+=[b]*rnd.choice([1,1,2,6])
    d='/tmp/scratch/tr13'
    ok,out=T.train(pws,d,coverage=rnd.choice([0.6,1.0]),ngram=rnd.choice([2,3,4]))
    if not ok: continue
    g=PcfgGrammar('x',d,'4.7'); lines=[]; g.print_guess=lambda s: lines.append(s)
    q=PcfgQueue(g); probof=collections.defaultdict(list)
    while True:
        it=q.next()
        if it is None: break
        if it['pt'][0][0]=='M': continue
        k=len(lines); g.create_guesses(it['pt'])
        for s in lines[k:]: probof[s].append(it['prob'])
        if len(lines)>400000: break
    if len(lines)>400000: continue
    sc=PCFGPasswordScorer()
    with contextlib.redirect_stdout(io.StringIO()): load_grammar(sc,d)
    sc.create_multiword_detector(); sc.create_omen_scorer(d,9)
    cands=set(pws)|set(rnd.sample(lines,min(200,len(lines))))
    cands|={perturb(c) for c in list(cands) for _ in range(3)}|{gen(2) for _ in range(50)}
    res={}
    for s in cands:
        r=sc.parse(s); res[s]=r; tot+=1; cats[r[1]]+=1
        if r[1] in 'ew' and r[2]!=0: bad+=1; print('EW nonzero',r)
        if r[2]>0:
            nz+=1
            if not any(abs(r[2]-x)<=1e-9*x for x in probof.get(s,[])):
                if irreversible(s): cats['irrev']+=1; continue
                bad+=1
                if bad<8: print('BAD',repr(s),r,probof.get(s),'pws',sorted(set(pws)))
    for s in list(cands)[::-1]:
        if sc.parse(s)!=res[s]: bad+=1; print('NONDET',s)
print('tot',tot,'nonzero',nz,'bad',bad,dict(cats))
