import sys, subprocess
def run(args):
    return subprocess.run(['/venv/bin/python','/tmp/scratch/wt/pcfg_guesser.py','-r','T3','-s','lim']+args, input=b'\n', capture_output=True, timeout=120).stdout.decode().split('\n')
full=run([])
assert full[0]=='' and full[-1]==''
full=full[1:-1]
print('total',len(full), full[:12])
bad=0
for N in list(range(1,80))+[len(full)-1,len(full),len(full)+5]:
    out=run(['-n',str(N)])[1:-1]
    if out!=full[:N]:
        bad+=1; print('N',N,'got',len(out),'exp',min(N,len(full)), out[:N]==full[:N])
print('bad',bad)
