import sys, os
sys.path.insert(0,'/repo'); sys.path.insert(0,'/tmp/scratch')
from t_train import train
from lib_trainer.trainer_file_input import TrainerFileInput
from lib_guesser.pcfg_grammar import PcfgGrammar
def rd(raw,enc='utf-8',prefix=False):
    open('/tmp/scratch/in.txt','wb').write(raw)
    f=TrainerFileInput('/tmp/scratch/in.txt',enc,prefix); out=list(f.read_password()); return out,f.num_passwords,f.num_encoding_errors
print(rd('ab cd\n'.encode()))
print(rd(('$HEX['+'ab cd'.encode().hex()+']\n').encode()))
print(rd(b'ab\x0bcd\nxy\x1cz\nq\xc2\x85r\n'))
print(rd('p q\n'.encode()))
ok,out=train(None,'/tmp/scratch/tr7',raw=('$HEX['+'! !'.encode().hex()+']\n').encode()*3+b'abcd1\n')
print(ok); print(repr(open('/tmp/scratch/tr7/Other/3.txt','rb').read()))
g=PcfgGrammar('x','/tmp/scratch/tr7','4.7')
print({k:v for k,v in g.grammar.items() if v})
print(g.base)
