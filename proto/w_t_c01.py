import sys, shutil, random, itertools, collections, math
sys.path.insert(0,'/tmp/scratch/wt'); sys.path.insert(0,'/tmp/scratch')
from mk import mk_ruleset
from lib_guesser.pcfg_grammar import PcfgGrammar
from lib_guesser.priority_queue import PcfgQueue
rnd=random.Random(int(sys.argv[1])); N=int(sys.argv[2])
bad=0; cases=0; ties=0
pools=[[0.5,0.25,0.125,0.0625,0.03125],[0.1,0.2,0.3,0.4,0.05,0.15],[1/3,1/7,1/9,0.7,0.07,0.007],[1e-300,1e-200,1e-150,1e-100,1e-310,5e-324],[0.6,0.3,0.1,0.06,0.03,0.01]]
for t in range(N):
    pool=rnd.choice(pools)
    types=['D1','D2','O1','A2','K4','Y1','X1']
    nt=rnd.randint(1,4)
    chosen=rnd.sample(types,nt)
    terms={}
    for nm in chosen:
        k=rnd.randint(1,4)
        ps=sorted(set(rnd.sample(pool,min(k,len(pool)))),reverse=True)
        rows=[]
        for gi,p in enumerate(ps):
            for vi in range(rnd.randint(1,2)):
                L=int(nm[1:]) if nm[0] in 'DOAK' else 2
                base={'D':'0123456789','O':'!@#$%^&*()','A':'abcdefghij','K':'qwertyuiop','Y':'0123456789','X':'<>;:#'}[nm[0]]
                rows.append((base[(gi*2+vi)%len(base)]*L,p))
        terms[nm]=rows
        if nm[0]=='A':
            terms['C'+nm[1:]]=[('L'*int(nm[1:]),0.75),('U'+'L'*(int(nm[1:])-1),0.25)][:rnd.randint(1,2)]
    base=[]
    for b in range(rnd.randint(1,3)):
        ln=rnd.randint(1,4)
        st=''.join(rnd.choice(chosen) for _ in range(ln))
        base.append((st, rnd.choice(pool)))
    base.sort(key=lambda x:-x[1])
    d='/tmp/scratch/rs01'; shutil.rmtree(d,ignore_errors=True); mk_ruleset(d,base,terms)
    g=PcfgGrammar('x',d,'4.7')
    q=PcfgQueue(g); seq=[]
    while True:
        it=q.next()
        if it is None: break
        seq.append(it)
        if len(seq)>50000: break
    # oracle
    exp=collections.Counter()
    for bi,b in enumerate(g.base):
        rng=[range(len(g.grammar[r])) for r in b['replacements']]
        for idx in itertools.product(*rng):
            exp[(bi,tuple(zip(b['replacements'],idx)))]+=1
    # map emitted to base index: ambiguous if duplicates base; use multiset on (base_prob, pt)
    expm=collections.Counter(); 
    for (bi,pt),c in exp.items(): expm[(g.base[bi]['prob'],pt)]+=c
    got=collections.Counter((it['base_prob'],tuple(it['pt'])) for it in seq)
    cases+=1
    probs=[it['prob'] for it in seq]
    if len(set(probs))<len(probs): ties+=1
    mono=all(probs[i]>=probs[i+1] for i in range(len(probs)-1))
    pe=True
    for it in seq:
        p=it['base_prob']
        for ty,ix in it['pt']: p*=g.grammar[ty][ix]['prob']
        if p!=it['prob']: pe=False
    if got!=expm or not mono or not pe:
        bad+=1
        if bad<5: print('BAD',base,terms,'missing',list((expm-got).items())[:3],'extra',list((got-expm).items())[:3],mono,pe)
print('cases',cases,'with ties',ties,'bad',bad)
