import sys, os, io, contextlib, collections, random, shutil, itertools
sys.path.insert(0,'/tmp/scratch/wt'); sys.path.insert(0,'/tmp/scratch')
import w_t_train as T
from lib_guesser.pcfg_grammar import PcfgGrammar
from lib_guesser.priority_queue import PcfgQueue
from lib_princeling.wordlist_generation import create_prince_wordlist
rnd=random.Random(5)
pws=['password1']*6+['love']*6+['lovepassword','Password1!','abcd','abcd','abce','1qaz2wsx','test2019','i<3you','bob@gmail.com','www.google.com1','xyzw','PaSSword#1','привет','a b','No.1x','LOVE22','love22']
ok,out=T.train(pws,'/tmp/scratch/trm')
print('prince grammar:',open('/tmp/scratch/trm/Prince/grammar.txt').read().replace('\n',' | '))
def prince(size, lower=False):
    g=PcfgGrammar('x','/tmp/scratch/trm','4.3',base_structure_folder='Prince',skip_case=lower)
    out=[]; g.print_guess=lambda s: out.append(s)
    with contextlib.redirect_stderr(io.StringIO()): create_prince_wordlist(g,size)
    return out
full=prince(None); print('prince total',len(full), full[:15])
bad=[N for N in range(1,len(full)+3) if prince(N)!=full[:N]]
print('prince size bad N:',bad)
# ---- C09 in-process limit sweep incl. Markov
from lib_guesser.cracking_session import CrackingSession
import lib_guesser.cracking_session as cs, builtins, threading, configparser
class NoSleep:
    def __getattr__(s,n): import time; return getattr(time,n)
    def sleep(s,x): pass
cs.time=NoSleep()
ev=threading.Event()
def fake_input(*a):
    ev.wait(); raise EOFError
builtins.input=fake_input
def session(d,limit=None,**kw):
    g=PcfgGrammar('x',d,'4.7',save_file='/tmp/scratch/ses.sav',**kw)
    out=[]; g.print_guess=lambda s: out.append(s)
    sc=configparser.ConfigParser()
    for s in ['rule_info','session_info','guessing_info']: sc.add_section(s)
    c=CrackingSession(g,sc,'/tmp/scratch/ses.sav')
    with contextlib.redirect_stderr(io.StringIO()): c.run(limit=limit)
    return out
from mk import mk_ruleset
d='/tmp/scratch/rs09'; shutil.rmtree(d,ignore_errors=True)
om=dict(ngram=2, ip=[(0,'a'),(1,'b')], cp=[(0,'aa'),(1,'ab'),(0,'ba'),(1,'bb')], ln=[10,0,1,2]+[10]*17, probs=[(1,0.5),(2,0.4),(3,0.0001)], keyspace=[(1,3),(2,5),(3,7)])
mk_ruleset(d,[('A3D1',0.5),('M',0.3),('O1A3A3',0.2)],{'A3':[('cat',0.6),('dog',0.6),('pig',0.4)][:1]+[('dog',0.3),('pig',0.3),('cow',0.1)],'C3':[('LLL',0.7),('ULL',0.2),('UUU',0.2)][:2]+[('LLU',0.1)],'D1':[(str(i),p) for i,p in enumerate([0.5,0.3,0.2])],'O1':[('!',0.6),('@',0.4)]},omen=om)
U=session(d); print('U',len(U))
bad=[N for N in range(1,len(U)+2) if session(d,limit=N)!=U[:N]]
print('limit bad N:',bad[:20],len(bad))
for kw in [dict(skip_brute=True),dict(skip_case=True)]:
    U2=session(d,**kw); bad=[N for N in range(1,len(U2)+2) if session(d,limit=N,**kw)!=U2[:N]]
    print(kw,'total',len(U2),'bad',bad[:10])
ev.set()
