import sys, random, os, io, contextlib, hashlib, shutil
sys.path.insert(0,'/tmp/scratch/wt'); sys.path.insert(0,'/tmp/scratch')
import w_t_train as T
import lib_trainer.run_trainer as rt
from lib_trainer.trainer_file_input import TrainerFileInput
rnd=random.Random(int(sys.argv[1]))
seqs=[]
orig=TrainerFileInput.read_password
def spy(self):
    rec=[]; seqs.append((self,rec))
    for p in orig(self): rec.append(p); yield p
TrainerFileInput.read_password=spy
frags=['password','love','1qaz','!@#$','123','2019','#1','é','привет','😀',' ','  ','x','Q','$HEX[','$HEX[41]',']','9','-','3 ','12 ']
def gen():
    return ''.join(rnd.choice(frags) for _ in range(rnd.randint(1,4)))
def tree(d):
    h={}
    for r,ds,fs in os.walk(d):
        for f in fs:
            b=open(os.path.join(r,f),'rb').read()
            if f=='config.ini': b=b'\n'.join(l for l in b.split(b'\n') if not l.startswith(b'uuid'))
            h[os.path.relpath(os.path.join(r,f),d)]=hashlib.sha256(b).hexdigest()
    return h
bad=0;n=0
junk=[b'',b'\tx',b'a\tb',b'ab\x0bcd',b'q\x1cr',b'\xff\xfe',b'n\xc2\x85m','u v'.encode(),'u v'.encode(),b'\x00']
for t in range(int(sys.argv[2])):
    base=[gen() for _ in range(rnd.randint(2,8))]
    items=[(b,rnd.choice([1,1,2,5,6])) for b in base]
    jk=[rnd.choice(junk) if rnd.random()<0.3 else None for _ in items]
    enc='utf-8'
    def valid_plain(p): return not (p.startswith('$HEX[') and p.endswith(']')) and p==p.rstrip('\r\n')
    def render(mode):
        out=[]
        for (p,c),j in zip(items,jk):
            hexd='$HEX['+p.encode(enc).hex()+']'
            if mode=='plain': out+=[p.encode(enc)]*c
            elif mode=='hex': out+=[hexd.encode()]*c
            elif mode=='mix': out+=[(hexd if rnd.random()<0.5 else p).encode(enc) for _ in range(c)]
            elif mode=='prefix': out.append(('%s%d %s'%(' '*rnd.randint(0,6),c,p)).encode(enc))
            elif mode=='prefixhex': out.append(('%d %s'%(c,hexd)).encode(enc))
            if j is not None:
                out.append((b'1 '+j) if mode.startswith('prefix') else j)
        eol=rnd.choice([b'\n',b'\r\n'])
        return eol.join(out)+eol
    # plain rendering only faithful if no item is a hex look-alike
    trees={}
    for mode in ['plain','hex','mix','prefix','prefixhex']:
        if mode in('plain','mix','prefix') and not all(valid_plain(p) for p,_ in items): continue
        d='/tmp/scratch/tr19/x'; shutil.rmtree('/tmp/scratch/tr19',ignore_errors=True); os.makedirs('/tmp/scratch/tr19')
        del seqs[:]
        ok,out=T.train(None,d,raw=render(mode),prefix=mode.startswith('prefix'))
        if not ok: trees[mode]='FAIL'; continue
        s=[tuple(r) for _,r in seqs]
        if len(set(s))!=1: bad+=1; print('passes differ',mode)
        exp=[p for p,c in items for _ in range(c)]
        if list(s[0])!=exp: bad+=1; print('SEQ',mode,s[0][:6],exp[:6])
        trees[mode]=tree(d)
    n+=1
    vals=list(trees.values())
    if any(v!=vals[0] for v in vals):
        bad+=1; print('TREE DIFF',items,{m:(v if v=='FAIL' else len(v)) for m,v in trees.items()})
        ms=list(trees); 
        for m in ms[1:]:
            if trees[m]!=trees[ms[0]] and trees[m]!='FAIL' and trees[ms[0]]!='FAIL': print(' ',m,[k for k in set(trees[m])|set(trees[ms[0]]) if trees[m].get(k)!=trees[ms[0]].get(k)])
print('n',n,'bad',bad)
