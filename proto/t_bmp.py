import sys, os, io, contextlib, collections, unicodedata
sys.path.insert(0,'/tmp/scratch/wt'); sys.path.insert(0,'/tmp/scratch')
import w_t_train as T
from lib_trainer.trainer_file_input import check_valid
from lib_guesser.pcfg_grammar import PcfgGrammar
from lib_scorer.pcfg_password_scorer import PCFGPasswordScorer
from lib_scorer.grammar_io import load_grammar
from lib_guesser.omen.input_file_io import load_rules
from lib_scorer.omen_scorer import OmenScorer
lo,hi=int(sys.argv[1],16),int(sys.argv[2],16)
badcp=collections.defaultdict(list)
def disk(d,enc):
    out={}
    for sub,pre in [('Alpha','A'),('Capitalization','C'),('Digits','D'),('Other','O'),('Keyboard','K')]:
        for f in os.listdir(os.path.join(d,sub)):
            rows=[]
            for line in open(os.path.join(d,sub,f),'rb').read().decode(enc).split('\n'):
                if line=='': continue
                v,p=line.rsplit('\t',1); rows.append((v,float(p)))
            out[pre+f[:-4]]=rows
    return out
B=150
cps=[c for c in range(lo,hi) if not (0xD800<=c<=0xDFFF)]
for i in range(0,len(cps),B):
    batch=cps[i:i+B]
    pws=[]
    for c in batch:
        ch=chr(c)
        for p in (ch, 'a'+ch+'b', ch+'7', '7'+ch, ' '+ch, ch+' '):
            pws.append(p)
    acc=[p for p in pws if check_valid(p)]
    raw=b''.join(('$HEX['+p.encode('utf-8').hex()+']\n').encode() for p in pws)
    d='/tmp/scratch/trbmp%s'%sys.argv[1]
    err=io.StringIO()
    with contextlib.redirect_stderr(err):
        ok,out=T.train(None,d,raw=raw,ngram=2,coverage=0.6)
    if not ok: badcp['trainfail'].append((hex(batch[0]),out[-200:])); continue
    dk=disk(d,'utf-8')
    with contextlib.redirect_stderr(err):
        try: g=PcfgGrammar('x',d,'4.7')
        except BaseException as e: badcp['guesser_load_exc'].append((hex(batch[0]),repr(e))); continue
        sc=PCFGPasswordScorer()
        with contextlib.redirect_stdout(io.StringIO()): okl=load_grammar(sc,d)
    if err.getvalue().strip(): badcp['stderr'].append((hex(batch[0]),err.getvalue()[:300]))
    # compare disk to guesser
    for name,rows in dk.items():
        gv=[(v,grp['prob']) for grp in g.grammar.get(name,[]) for v in grp['values']]
        if gv!=rows:
            diff=[r for r in rows if r not in gv][:3]
            badcp['guesser_mismatch'].append((name,[ [hex(ord(x)) for x in v] for v,_ in diff]))
        cnt={'A':sc.count_alpha,'C':sc.count_alpha_masks,'D':sc.count_digits,'O':sc.count_other,'K':sc.count_keyboard}[name[0]].get(int(name[1:]),{})
        if dict(rows)!=dict(cnt):
            badcp['scorer_mismatch'].append((name,[ [hex(ord(x)) for x in v] for v,_ in rows if v not in cnt][:3]))
    # omen loaders
    og={}; 
    with contextlib.redirect_stdout(io.StringIO()): okr=load_rules(d+'/Omen',og)
    if not okr: badcp['omen_guesser_load'].append(hex(batch[0])); continue
    os_=OmenScorer(d,'utf-8',9)
    ipd=[l.split('\t') for l in open(d+'/Omen/IP.level','rb').read().decode('utf-8').split('\n') if l]
    gip={v:l for l,vs in og['ip'].items() for v in vs}
    if {v:int(l) for l,v in ipd}!=gip: badcp['omen_ip_guesser'].append(hex(batch[0]))
    if {v:int(l) for l,v in ipd}!=os_.ip: badcp['omen_ip_scorer'].append(hex(batch[0]))
print(hex(lo),hex(hi),{k:len(v) for k,v in badcp.items()})
for k,v in badcp.items(): print(k,v[:4])
