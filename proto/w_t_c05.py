import sys, random, collections
sys.path.insert(0,'/tmp/scratch/wt')
from lib_trainer.pcfg_password_parser import PCFGPasswordParser
from lib_trainer.detection_rules.multiword_detector import MultiWordDetector
import lib_trainer.pcfg_password_parser as P
cap={}
orig=P.base_structure_creation
def spy(section_list):
    cap['s']=list(section_list); return orig(section_list)
P.base_structure_creation=spy
rnd=random.Random(int(sys.argv[1]))
frags=['password','love','pass','word','1qaz','2wsx','qwer1234','!@#$','123','2019','1999','20','19','#1','No.1','<3','i<3','Mr.','bob@gmail.com','@','.com','.net','www.','http://','google.com','a.b.c','İ','ß','ǅ','Σ','é','ж','привет','йцук1','😀',' ','  ','x','Q','zxcv','asdf5','9','0','²','٣','-','_','/','.ru','mail.ru','er5tgb','tty','drew','q123']
def gen():
    n=rnd.randint(1,5); s=''
    for _ in range(n):
        f=rnd.choice(frags)
        if rnd.random()<0.3: f=f.upper()
        if rnd.random()<0.1: f=f[:rnd.randint(1,len(f))]
        s+=f
    return s
mw=MultiWordDetector(5,4,21)
hist=[gen() for _ in range(300)]+['password']*6+['love']*6+['pass']*5+['word']*5
for h in hist: mw.train(h)
pr=PCFGPasswordParser(mw)
viol=collections.Counter(); ex={}
N=int(sys.argv[2])
for i in range(N):
    pw=gen()
    try:
        pr.parse(pw)
    except Exception as e:
        viol['raise:'+type(e).__name__]+=1; ex.setdefault('raise',pw); continue
    sl=cap['s']
    # tiling
    pos=0; okk=True
    for seg,lab in sl:
        if seg=='' : viol['empty']+=1; ex.setdefault('empty',(pw,sl)); viol['empty_noI'] += ('İ' not in pw)
        if lab is None: viol['untyped']+=1
        if lab and lab[0]=='W':
            if pw[pos:pos+len(seg)].lower()!=seg: okk=False
        else:
            if pw[pos:pos+len(seg)]!=seg: okk=False
        pos+=len(seg)
        if lab and lab[0] in 'ADOK' and int(lab[1:])!=len(seg): viol['lenlabel']+=1; ex.setdefault('lenlabel',(pw,sl))
        if lab and lab[0]=='D' and not all(c.isdigit() for c in seg): viol['Dnotdigit']+=1
        if lab and lab[0]=='A' and not all(c.isalpha() for c in seg): viol['Anotalpha']+=1; ex.setdefault('Anotalpha',(pw,sl))
        if lab and lab[0]=='O' and any(c.isalpha() or c.isdigit() for c in seg): viol['Ohasalnum']+=1; ex.setdefault('Ohasalnum',(pw,sl))
    if pos!=len(pw) or not okk: viol['tiling']+=1; ex.setdefault('tiling',(pw,sl)); viol['tiling_noI']+= ('İ' not in pw)
print(N, dict(viol)); 
for k,v in ex.items(): print(k,v)
