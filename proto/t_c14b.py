exec(open('/tmp/scratch/t_sched.py').read().split("d=WT+'/Rules/S1'")[0])
d=WT+'/Rules/S3'; shutil.rmtree(d,ignore_errors=True)
om=dict(ngram=2, ip=[(0,'a'),(1,'b')], cp=[(0,'aa'),(1,'ab'),(0,'ba'),(1,'bb')], ln=[10,0,1,2]+[10]*17, probs=[(1,0.25)], keyspace=[(1,3)])
mk_ruleset(d,[('A3D1',0.5),('M',0.3),('O1',0.2)],{'A3':[('cat',0.6),('dog',0.4)],'C3':[('LLL',0.7),('ULL',0.3)],'D1':[(str(i),p) for i,p in enumerate([0.5,0.3,0.2])],'O1':[('!',0.6),('@',0.4)]},omen=om)
U,_,_=run_main(['-r','S3','-s','u','--skip_brute','--all_lower']); print('U',U)
st=Stdin()
def og(pcfg,n,g):
    if n==3:
        st.script.append('q'); st.ev.set()
        t0=time.time()
        while not pcfg.should_exit and time.time()-t0<5: time.sleep(0.0005)
A,_,_=run_main(['-r','S3','-s','z','--skip_brute','--all_lower'],on_guess=og,stdin=st); print('A',A)
B,err,_=run_main(['-s','z','--load']); print('B',B); print(A+B==U)
