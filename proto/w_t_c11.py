import sys, random, collections, os, itertools
sys.path.insert(0,'/tmp/scratch/wt'); sys.path.insert(0,'/tmp/scratch')
import w_t_train as t_train; t_train.MAXLEN=7
from w_t_train import train
import lib_trainer.run_trainer as rt
cap={}
orig=rt.save_omen_rules_to_disk
def spy(omen_trainer,*a,**k):
    cap['t']=omen_trainer; return orig(omen_trainer,*a,**k)
rt.save_omen_rules_to_disk=spy
from lib_trainer.omen.evaluate_password import find_omen_level
from lib_scorer.omen_scorer import OmenScorer
from lib_guesser.omen.input_file_io import load_rules
from lib_guesser.omen.markov_cracker import MarkovCracker
from lib_guesser.omen.optimizer import Optimizer
rnd=random.Random(int(sys.argv[1]))
tot=bad=0
for t in range(int(sys.argv[2])):
    ngram=rnd.choice([2,3,4]); alpha=rnd.choice(['ab','abc','aé'])
    enc=rnd.choice(['utf-8','latin-1'])
    pws=[''.join(rnd.choice(alpha) for _ in range(rnd.randint(max(1,ngram-1),ngram+3))) for i in range(rnd.randint(3,25))]
    d='/tmp/scratch/tr11'
    ok,out=train(pws,d,ngram=ngram,enc=enc)
    if not ok: continue
    tr=cap['t']
    try:
        sc=OmenScorer(d,enc,9)
    except Exception as e:
        print('SCORER LOAD FAIL',enc,repr(e)[:100]); bad+=1; continue
    g={}; load_rules(d+'/Omen',g); opt=Optimizer(4)
    member={}
    for L in range(0,25):
        mc=MarkovCracker(g,L,opt)
        while True:
            x=mc.next_guess()
            if x is None: break
            if x in member: print('DUP across levels',x)
            member[x]=L
    cands=set(pws)|set(member)|{''.join(c) for n in range(1,6) for c in itertools.product(alpha+'z',repeat=n)}
    for s in cands:
        a=find_omen_level(tr,s); b=sc.parse(s); c=member.get(s,-1)
        tot+=1
        if not (a==b==c):
            if a>=25 and c==-1 and a==b: continue
            bad+=1
            if bad<10: print('DISAGREE',repr(s),'trainer',a,'scorer',b,'guesser',c,'ngram',ngram,enc)
print('tot',tot,'bad',bad)
