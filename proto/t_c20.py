import sys, os, io, contextlib, shutil, hashlib, re, itertools
sys.path.insert(0,'/tmp/scratch/wt'); sys.path.insert(0,'/tmp/scratch')
import w_t_train as T
import edit_rules as ER
from lib_guesser.pcfg_grammar import PcfgGrammar
from lib_guesser.priority_queue import PcfgQueue
pws=['password1']*6+['love']*6+['lovepassword','Password1!','abcd','abcd','abce','1qaz2wsx','test2019','i<3you','xyzw','PaSSword#1','привет','a b','No.1x','LOVE22','love22','abcdefghijklmnop1','1234567890123','!!']
rules='/tmp/scratch/rules20'; shutil.rmtree(rules,ignore_errors=True); os.makedirs(rules)
ok,out=T.train(pws,rules+'/R'); print(ok)
orig=open(rules+'/R/Grammar/grammar.txt').read(); print(orig.replace('\n',' | '))
def snap(d):
    return {os.path.relpath(os.path.join(r,f),d):hashlib.sha256(open(os.path.join(r,f),'rb').read()).hexdigest() for r,_,fs in os.walk(d) for f in fs}
def ref(lines,minl,maxl,tset,rxs):
    out=[]
    for l in lines:
        st,p=l.split('\t')
        labs=re.findall(r'[A-Z]\d*',st)
        tot=sum(4 if x[0]=='Y' else (0 if x[0]=='M' else int(x[1:])) for x in labs)
        if (minl or maxl):
            if tot==0: pass
            elif tot<minl or (maxl and tot>maxl): continue
        if tset and any(x[0] not in tset for x in labs): continue
        if rxs and not all(re.search(r,st) for r in rxs): continue
        out.append(l)
    return out
bad=0;n=0
for minl,maxl,tset,rxs,copy in itertools.product([0,5,9],[0,6,12],[None,['A','D'],['A','D','M','O']],[None,['^A'],['D','A.*D']],[None,'C']):
    shutil.rmtree(rules+'/C',ignore_errors=True)
    open(rules+'/R/Grammar/grammar.txt','w').write(orig)
    before=snap(rules+'/R')
    cfg={'rules_dir':rules,'rule':'R','copy':copy,'min_length':minl,'max_length':maxl,'terminal_set':tset or False}
    if rxs: cfg['regex']=rxs
    with contextlib.redirect_stdout(io.StringIO()): ER.edit_rules(cfg)
    tgt=rules+'/'+(copy or 'R')
    got=[l for l in open(tgt+'/Grammar/grammar.txt').read().split('\n') if l]
    exp=ref([l for l in orig.split('\n') if l],minl,maxl,tset,rxs)
    after=snap(tgt)
    other={k for k in before if k!='Grammar/grammar.txt' and before[k]!=after.get(k)}
    n+=1
    srcok = (snap(rules+'/R')==before) if copy else True
    # length of guesses
    lenbad=[]
    if got and any(not l.startswith('M\t') for l in got):
        g=PcfgGrammar('x',tgt,'4.7',skip_brute=True); outg=[]; g.print_guess=lambda s: outg.append(s)
        q=PcfgQueue(g)
        while True:
            it=q.next()
            if it is None: break
            g.create_guesses(it['pt'])
        lenbad=[s for s in outg if (minl and len(s)<minl) or (maxl and len(s)>maxl)]
    if got!=exp or other or not srcok or lenbad:
        bad+=1
        if bad<6: print('BAD',minl,maxl,tset,rxs,copy,'gotXexp',got!=exp,'other',other,'src',srcok,'lenbad',lenbad[:3])
print('n',n,'bad',bad)
