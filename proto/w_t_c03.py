import sys, random, collections, os, io, contextlib
sys.path.insert(0,'/tmp/scratch/wt'); sys.path.insert(0,'/tmp/scratch')
import w_t_train as t_train; t_train.MAXLEN=21
from w_t_train import train
from lib_guesser.pcfg_grammar import PcfgGrammar
from lib_guesser.priority_queue import PcfgQueue
from lib_scorer.pcfg_password_scorer import PCFGPasswordScorer
from lib_scorer.grammar_io import load_grammar
rnd=random.Random(int(sys.argv[1]))
frags=['password','love','pass','word','1qaz','2wsx','!@#$','123','2019','1999','#1','No.1','<3','Mr.','é','ж','привет','йцук1','😀',' ','  ','x','Q','zxcv','asdf5','9','0','-','_','Σοφία','ÑANDÚ','ǆ','monkey','dragon','PaSS']
def gen():
    s=''
    for _ in range(rnd.randint(1,4)):
        f=rnd.choice(frags)
        r=rnd.random()
        if r<0.2: f=f.upper()
        elif r<0.3: f=f.capitalize()
        s+=f
    return s
bad=0; tot=0
for t in range(int(sys.argv[2])):
    base=[gen() for _ in range(rnd.randint(3,12))]
    pws=[]
    for b in base: pws+= [b]*rnd.choice([1,1,2,6])
    rnd.shuffle(pws)
    cov=rnd.choice([0.6,1.0,0.3])
    d='/tmp/scratch/tr3'
    ok,out=train(pws,d,coverage=cov,ngram=rnd.choice([2,3,4]))
    if not ok: print('trainfail',pws); continue
    g=PcfgGrammar('x',d,'4.7',skip_brute=(cov!=1.0))
    lines=[]; g.print_guess=lambda s: lines.append(s)
    q=PcfgQueue(g); total=0.0; emitted=collections.Counter(); probof={}
    n=0
    while True:
        it=q.next()
        if it is None: break
        k=len(lines); c=g.create_guesses(it['pt']); 
        assert c==len(lines)-k
        total+=it['prob']*c
        for s in lines[k:]: emitted[s]+=1; probof.setdefault(s,[]).append(it['prob'])
        n+=1
        if len(lines)>300000: break
    raw=open(d+'/Grammar/raw_grammar.txt').read()
    tot+=1
    miss=[p for p in set(pws) if p not in emitted]
    # unsupported?
    sc=PCFGPasswordScorer(); 
    with contextlib.redirect_stdout(io.StringIO()): load_grammar(sc,d)
    sc.create_multiword_detector(); sc.create_omen_scorer(d,9)
    scbad=[]
    for p in set(pws)|set(list(emitted)[:50]):
        r=sc.parse(p)
        if r[2]>0:
            if p not in emitted or not any(abs(r[2]*( 1 if cov==1 else 1)-x)/x<1e-9 for x in [pp* (1.0) for pp in probof[p]]):
                # account for skip_brute rescale
                mprob=[float(l.split('\t')[1]) for l in open(d+'/Grammar/grammar.txt') if l.startswith('M\t')]
                scale=1/(1-mprob[0]) if mprob else 1
                if p not in emitted or not any(abs(r[2]*scale-x)/x<1e-9 for x in probof[p]): scbad.append((p,r,probof.get(p)))
    if miss or abs(total-1)>1e-9 or scbad:
        bad+=1
        if bad<6: print('BAD miss',miss,'total',total,'scbad',scbad[:3],'pws',sorted(set(pws)))
print('tot',tot,'bad',bad)
