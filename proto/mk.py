import os, json, uuid
def mk_ruleset(d, base, terms, omen=None, prince=None, encoding='utf-8', uid=None):
    """base: list of (struct, prob); terms: dict name-> list of (value, prob) e.g. 'A3': [('cat',.5),..]
    'C3' for masks. omen: dict with ngram, ip:[(lvl,ngram)], cp:[(lvl,ngram)], ln:[levels], probs:[(level,prob)], keyspace"""
    for sub in ['Grammar','Alpha','Capitalization','Digits','Other','Keyboard','Years','Context','Omen','Emails','Websites','Prince','Masks']:
        os.makedirs(os.path.join(d,sub), exist_ok=True)
    def w(path, rows, enc=encoding):
        with open(path,'w',encoding=enc, newline='') as f:
            for v,p in rows: f.write(f"{v}\t{p!r}\n")
    w(os.path.join(d,'Grammar','grammar.txt'), base, 'ascii')
    w(os.path.join(d,'Prince','grammar.txt'), prince or [], 'ascii')
    fam={'A':'Alpha','C':'Capitalization','D':'Digits','O':'Other','K':'Keyboard'}
    files={k:[] for k in fam}
    for name, rows in terms.items():
        t=name[0]; n=name[1:]
        if t in fam:
            w(os.path.join(d,fam[t],n+'.txt'), rows); files[t].append(n+'.txt')
        elif t=='Y': w(os.path.join(d,'Years','1.txt'), rows)
        elif t=='X': w(os.path.join(d,'Context','1.txt'), rows)
    for f in ['Years/1.txt','Context/1.txt','Emails/email_providers.txt','Websites/website_hosts.txt','Websites/website_prefixes.txt']:
        p=os.path.join(d,f)
        if not os.path.exists(p): open(p,'w').close()
    import configparser
    c=configparser.ConfigParser()
    c['TRAINING_PROGRAM_DETAILS']={'contact':'x','author':'x','program':'PCFG Trainer','version':'4.7'}
    c['TRAINING_DATASET_DETAILS']={'comments':'','filename':'x.txt','encoding':encoding,'uuid':uid or str(uuid.uuid4()),'number_of_passwords_in_set':'10','number_of_encoding_errors':'0'}
    def sec(name, nm, dr, fl): c[name]={'name':nm,'directory':dr,'filenames':json.dumps(fl)}
    sec('BASE_A','A','Alpha',files['A']); sec('BASE_D','D','Digits',files['D']); sec('BASE_O','O','Other',files['O'])
    sec('BASE_K','K','Keyboard',files['K']); sec('BASE_X','X','Context',['1.txt']); sec('BASE_Y','Y','Years',['1.txt'])
    sec('CAPITALIZATION','C','Capitalization',files['C'])
    with open(os.path.join(d,'config.ini'),'w') as f: c.write(f)
    om = omen or dict(ngram=2, ip=[(0,'a')], cp=[(0,'aa')], ln=[10,0]+[10]*19, probs=[], keyspace=[])
    od=os.path.join(d,'Omen')
    with open(os.path.join(od,'config.txt'),'w') as f: f.write(f"[training_settings]\nngram = {om['ngram']}\nencoding = {encoding}\n")
    with open(os.path.join(od,'alphabet.txt'),'w',encoding=encoding) as f:
        for ch in sorted({ch for _,g in om['ip']+om['cp'] for ch in g}): f.write(ch+'\n')
    for fn,key in [('IP.level','ip'),('CP.level','cp')]:
        with open(os.path.join(od,fn),'w',encoding=encoding) as f:
            for l,g in om[key]: f.write(f"{l}\t{g}\n")
    with open(os.path.join(od,'EP.level'),'w',encoding=encoding) as f:
        for l,g in om['ip']: f.write(f"{l}\t{g}\n")
    with open(os.path.join(od,'LN.level'),'w') as f:
        for l in om['ln']: f.write(f"{l}\n")
    with open(os.path.join(od,'pcfg_omen_prob.txt'),'w',encoding=encoding) as f:
        for l,p in om['probs']: f.write(f"{l}\t{p!r}\n")
    with open(os.path.join(od,'omen_keyspace.txt'),'w',encoding=encoding) as f:
        for l,k in om['keyspace']: f.write(f"{l}\t{k}\n")
    return d
