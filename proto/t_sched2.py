import sys, os, threading, builtins, io, contextlib, shutil, time, inspect
exec(open('/tmp/scratch/t_sched.py').read().split("d=WT+'/Rules/S1'")[0])
mon=sys.monitoring; TOOL=3
mon.use_tool_id(TOOL,'verif-sched')
class Sched:
    """Cooperative scheduler: threads park at LINE events of watched code; controller decides who runs."""
    def __init__(self, codes):
        self.codes=codes; self.lock=threading.Lock(); self.trace=[]
        self.paused_k=threading.Event(); self.resume_k=threading.Event()
        self.hold_line=None   # (codename, lineno) at which K thread must park
        self.k_parked_at=None
        for c in codes: mon.set_local_events(TOOL,c,mon.events.LINE)
        mon.register_callback(TOOL,mon.events.LINE,self.cb)
    def cb(self,code,line):
        th=threading.current_thread()
        isk = getattr(th,'_target',None) is cs.keypress
        self.trace.append(('K' if isk else 'M',code.co_name,line))
        if isk and self.hold_line==(code.co_name,line):
            self.k_parked_at=(code.co_name,line)
            self.paused_k.set()
            self.resume_k.wait(); 
    def close(self):
        for c in self.codes: mon.set_local_events(TOOL,c,0)
        mon.register_callback(TOOL,mon.events.LINE,None)
def find_line(fn,pattern,after=False):
    src,start=inspect.getsourcelines(fn)
    for i,l in enumerate(src):
        if pattern in l: return start+i+(1 if after else 0)
    raise KeyError(pattern)
# ruleset with two consecutive Markov levels
d=WT+'/Rules/S2'; shutil.rmtree(d,ignore_errors=True)
om=dict(ngram=2, ip=[(0,'a'),(1,'b')], cp=[(0,'aa'),(1,'ab'),(0,'ba'),(1,'bb')], ln=[10,0,1,2]+[10]*17, probs=[(1,0.5),(2,0.4),(3,0.0001)], keyspace=[(1,3),(2,5),(3,7)])
mk_ruleset(d,[('D1',0.5),('M',0.3),('O1',0.2)],{'D1':[(str(i),p) for i,p in enumerate([0.5,0.3,0.2])],'O1':[('!',0.1),('@',0.05)]},omen=om)
U,_,_=run_main(['-r','S2','-s','u']); print('U',U)
# schedule: K parks on the line AFTER "pcfg.should_exit = True" (i.e. at 'return'), main continues until it finishes 2 more guesses, then K resumes
ret_line=find_line(cs.keypress,'pcfg.should_exit = True',after=True)
sch=Sched([cs.keypress.__code__, cs.CrackingSession.run.__code__, pg.PcfgGrammar.omen_generate_guesses.__code__])
sch.hold_line=('keypress',ret_line)
st=Stdin()
state={'n':0}
def og(pcfg,n,g):
    if n==2:   # first guess of level 1
        st.script.append('q'); st.ev.set()
        sch.paused_k.wait(5)       # K has set should_exit and is parked before 'return' (still alive)
    if n==6:
        sch.resume_k.set()
A,err,_=run_main(['-r','S2','-s','y'],on_guess=og,stdin=st)
sch.resume_k.set()
print('A',A)
sch.hold_line=None
B,err,_=run_main(['-r','S2','-s','y','--load'])
print('B',B)
sch.close()
print('lost',[x for x in U if x not in A+B], 'dups',[x for x in set(A+B) if (A+B).count(x)>1])
print('trace events',len(sch.trace), 'distinct lines', len(set(sch.trace)))
