import sys, shutil, subprocess, os
sys.path.insert(0,'/tmp/scratch')
from mk import mk_ruleset
d='/tmp/scratch/wt/Rules/T2'; shutil.rmtree(d,ignore_errors=True)
words=[('w%03d'%i, None) for i in range(200)]
A=[( 'w%03d'%i, 1.0/ (2**(i+1)) if i<40 else 1e-13/(i) ) for i in range(200)]
mk_ruleset(d,[('A4D1',0.6),('D1',0.4)],{'A4':A,'C4':[('LLLL',0.75),('ULLL',0.25)],'D1':[(str(i), p) for i,p in enumerate([0.3,0.2,0.15,0.1,0.08,0.07,0.05,0.03,0.015,0.005])]})
def run(args, **kw):
    p=subprocess.run(['/venv/bin/python','/tmp/scratch/wt/pcfg_guesser.py','-r','T2']+args, capture_output=True, timeout=120, **kw)
    return p
for name,kw in [('devnull',dict(stdin=subprocess.DEVNULL)),('eofpipe',dict(input=b'')),('enter-then-eof',dict(input=b'\n')) ]:
    p=run(['-s','s_'+name],**kw)
    print(name,'rc',p.returncode,'lines',len(p.stdout.splitlines()),'stderr tail:',p.stderr.decode()[-200:].replace('\n','|'))
r,w=os.pipe()
p=run(['-s','s_open'],stdin=r)
print('openpipe','rc',p.returncode,'lines',len(p.stdout.splitlines()),'stderr tail:',p.stderr.decode()[-300:].replace('\n','|'))
