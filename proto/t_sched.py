"""Prototype: drive real pcfg_guesser.main() in-process with scripted stdin + LINE-event scheduler."""
import sys, os, threading, builtins, io, contextlib, shutil, time, inspect
WT='/tmp/scratch/wt'
sys.path.insert(0,WT); sys.path.insert(0,'/tmp/scratch')
from mk import mk_ruleset
import pcfg_guesser
import lib_guesser.cracking_session as cs
import lib_guesser.pcfg_grammar as pg

class Stdin:
    def __init__(self): self.ev=threading.Event(); self.script=[]; self.blocked=threading.Event()
    def __call__(self,*a):
        while True:
            self.blocked.set()
            self.ev.wait(); self.ev.clear()
            if self.script:
                x=self.script.pop(0)
                if isinstance(x,BaseException): raise x
                return x
class NoSleep:
    def __getattr__(self,n): return getattr(time,n)
    def sleep(self,x): pass
cs.time=NoSleep()

def run_main(argv, on_guess=None, stdin=None):
    out=[]
    orig=pg.PcfgGrammar.print_guess
    def pgs(self,g):
        out.append(g)
        if on_guess: on_guess(self,len(out),g)
    pg.PcfgGrammar.print_guess=pgs
    builtins.input=stdin or Stdin()
    sys.argv=['pcfg_guesser.py']+argv
    err=io.StringIO()
    try:
        with contextlib.redirect_stderr(err), contextlib.redirect_stdout(io.StringIO()) as so:
            pcfg_guesser.main()
    finally:
        pg.PcfgGrammar.print_guess=orig
    return out, err.getvalue(), so.getvalue()

d=WT+'/Rules/S1'; shutil.rmtree(d,ignore_errors=True)
om=dict(ngram=2, ip=[(0,'a'),(1,'b')], cp=[(0,'aa'),(1,'ab'),(0,'ba'),(1,'bb')], ln=[10,0,1,2]+[10]*17, probs=[(1,0.01),(2,0.001),(3,0.0001)], keyspace=[(1,3),(2,5),(3,7)])
mk_ruleset(d,[('D1',0.5),('M',0.3),('O1',0.2)],{'D1':[(str(i),p) for i,p in enumerate([0.5,0.3,0.2])],'O1':[('!',0.6),('@',0.4)]},omen=om)
U,err,so=run_main(['-r','S1','-s','u'])
print('U',U, 'stdout:',repr(so))
# quit after j-th guess overall
def resume_chain(cuts):
    res=[]
    for i,c in enumerate(cuts):
        st=Stdin()
        def og(pcfg,n,g,st=st,c=c):
            if n==c:
                st.script.append('q'); st.ev.set()
                t0=time.time()
                while not pcfg.should_exit and time.time()-t0<5: time.sleep(0.0005)
                # wait thread to die
                for th in threading.enumerate():
                    if th.name!='MainThread' and th.daemon and getattr(th,'_target',None) is cs.keypress: th.join(1)
        out,err,so=run_main(['-r','S1','-s','x']+(['--load'] if i else []), on_guess=og if c else None, stdin=st)
        res.append(out)
        sav=open(WT+'/x.sav').read()
        print(' run',i,'cut',c,'->',out,'| omen_guess_number' , 'omen_guess_number' in sav)
    return res
for cuts in [[4,None],[5,None],[5,2,None],[6,1,None]]:
    print('cuts',cuts); r=resume_chain(cuts)
print('---- stale omn test')
d=WT+'/Rules/S1'; shutil.rmtree(d,ignore_errors=True)
om=dict(ngram=2, ip=[(0,'a'),(1,'b')], cp=[(0,'aa'),(1,'ab'),(0,'ba'),(1,'bb')], ln=[10,0,1,2]+[10]*17, probs=[(1,0.25)], keyspace=[(1,3)])
mk_ruleset(d,[('D1',0.5),('M',0.3),('O1',0.2)],{'D1':[(str(i),p) for i,p in enumerate([0.5,0.3,0.1,0.05,0.03,0.02])],'O1':[('!',0.6),('@',0.3),('#',0.1)]},omen=om)
U,err,so=run_main(['-r','S1','-s','u']); print('U',U)
for cuts in [[4,4,None],[4,None],[6,None]]:
    print('cuts',cuts); r=resume_chain(cuts)
