import sys, shutil, configparser
sys.path.insert(0,'/repo'); sys.path.insert(0,'/tmp/scratch')
from mk import mk_ruleset
from lib_guesser.pcfg_grammar import PcfgGrammar
from lib_guesser.priority_queue import PcfgQueue
d='/tmp/scratch/rs1'; shutil.rmtree(d,ignore_errors=True)
mk_ruleset(d,[('A1D1',1.0)],{'A1':[('a',0.5),('b',0.3),('c',0.2)],'C1':[('L',1.0)],'D1':[('1',0.5),('2',0.2),('3',0.3)][:2]+[('3',0.3)]})
# fix D1 order desc
mk_ruleset(d,[('A1D1',1.0)],{'A1':[('a',0.5),('b',0.3),('c',0.2)],'C1':[('L',1.0)],'D1':[('1',0.5),('3',0.3),('2',0.2)]})
g=PcfgGrammar('x',d,'4.7')
q=PcfgQueue(g); U=[]
while True:
    it=q.next()
    if it is None: break
    U.append((tuple(it['pt']),it['prob']))
print(len(U)); 
for u in U: print(u)
for k in range(len(U)):
    cfg=configparser.ConfigParser(); cfg.add_section('guessing_info')
    cfg.set('guessing_info','min_probability','0.0'); cfg.set('guessing_info','max_probability',str(U[k][1]))
    q=PcfgQueue(g,cfg); R=[]
    while True:
        it=q.next()
        if it is None: break
        R.append((tuple(it['pt']),it['prob']))
    from collections import Counter
    cnt=Counter(r[0] for r in R)
    dups=[(p,c) for p,c in cnt.items() if c>1]
    exp=set(u[0] for u in U[k:])
    missing=exp-set(cnt)
    baddup=[(p,c) for p,c in dups if dict(U)[p] != U[k][1]]
    print(k,U[k][1],'resumed',len(R),'missing',missing,'dups',dups,'BAD' if baddup else '')
