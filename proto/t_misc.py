import sys, os, pty, subprocess, shutil, random
sys.path.insert(0,'/repo'); sys.path.insert(0,'/tmp/scratch')
# pty
m,s=pty.openpty()
p=subprocess.run(['/venv/bin/python','/tmp/scratch/wt/pcfg_guesser.py','-r','T2','-s','tty'],stdin=s,capture_output=True,timeout=60)
print('tty rc',p.returncode,'lines',len(p.stdout.splitlines()))
# closed stdin
p=subprocess.run(['/venv/bin/python','/tmp/scratch/wt/pcfg_guesser.py','-r','T2','-s','closed'],stdin=subprocess.DEVNULL,capture_output=True,timeout=60,preexec_fn=lambda: os.close(0))
print('closed rc',p.returncode,'lines',len(p.stdout.splitlines()), p.stderr.decode()[-200:].replace('\n','|'))
# honeywords on sum<1 ruleset
from mk import mk_ruleset
from lib_guesser.pcfg_grammar import PcfgGrammar
d='/tmp/scratch/rs16'; shutil.rmtree(d,ignore_errors=True)
mk_ruleset(d,[('D1',0.3),('O1',0.2)],{'D1':[('1',0.6),('2',0.4)],'O1':[('!',1.0)]})
g=PcfgGrammar('x',d,'4.7')
import random as R
R.random=lambda: 0.9
try:
    it=g.random_walk(); print(it); g.create_guesses(it['pt'],is_honeyword=True,limit=3)
except Exception as e: print('EXC',repr(e))
print(sys.monitoring.get_tool(3))
