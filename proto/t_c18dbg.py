import sys, faulthandler
faulthandler.dump_traceback_later(25, exit=True)
sys.argv=['x','1','60']
exec(open('/tmp/scratch/t_c18.py').read())
