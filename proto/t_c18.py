import sys, random, collections, os
sys.path.insert(0,'/repo'); sys.path.insert(0,'/tmp/scratch')
#import fix18
import t_train; t_train.MAXLEN=7
from t_train import train
from lib_guesser.omen.input_file_io import load_rules
from lib_guesser.omen.markov_cracker import MarkovCracker
from lib_guesser.omen.optimizer import Optimizer
rnd=random.Random(int(sys.argv[1]))
tot=bad=0
for t in range(int(sys.argv[2])):
    ngram=rnd.choice([2,3,4])
    alpha='ab' if rnd.random()<0.5 else 'abc'
    mode=rnd.choice(['eq','single','mixed'])
    pws=[]
    for i in range(rnd.randint(3,25)):
        if mode=='eq': L=ngram
        elif mode=='single': L=ngram+1
        else: L=rnd.randint(max(1,ngram-1),ngram+3)
        pws.append(''.join(rnd.choice(alpha) for _ in range(L)))
    d='/tmp/scratch/tr18'
    ok,out=train(pws,d,ngram=ngram)
    if not ok: print('train failed',mode,ngram,pws[:5], out[-200:]); continue
    ks={}
    for line in open(d+'/Omen/omen_keyspace.txt'):
        l,k=line.split('\t'); ks[int(l)]=int(k)
    g={}; load_rules(d+'/Omen',g)
    opt=Optimizer(max_length=4)
    for L,k in ks.items():
        if k>200000: continue
        mc=MarkovCracker(g,L,opt); s=[]
        while True:
            x=mc.next_guess()
            if x is None: break
            s.append(x)
        tot+=1
        if len(set(s))!=k:
            bad+=1
            if bad<8: print('KEYSPACE MISMATCH',mode,'ngram',ngram,'level',L,'trainer',k,'guesser',len(set(s)),'len==ngram in guesser',sum(1 for x in set(s) if len(x)==ngram), 'LN',open(d+'/Omen/LN.level').read().split()[:8])
print('tot',tot,'bad',bad)
