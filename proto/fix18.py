import lib_trainer.omen.evaluate_password as ep, lib_trainer.run_trainer as rt
from collections import Counter
def calc_omen_keyspace(omen_trainer, max_level = 18, max_keyspace = 10000000000):
    keyspace = Counter()
    for level in range(1,max_level+1):
        for ip, ip_info in omen_trainer.grammar.items():
            level_minus_ip = level - ip_info['ip_level']
            if level_minus_ip >= 0:
                for length, length_info in enumerate(omen_trainer.ln_lookup):
                    length += 1
                    if length < omen_trainer.ngram:
                        continue
                    if length_info[0] <= level_minus_ip:
                        keyspace[level] += ep._rec_calc_keyspace(omen_trainer, level_minus_ip - length_info[0], length - omen_trainer.ngram + 1, ip)
                        if keyspace[level] > max_keyspace:
                            return keyspace
    return keyspace
rt.calc_omen_keyspace = calc_omen_keyspace
