import sys, shutil, subprocess, os
sys.path.insert(0,'/tmp/scratch')
from mk import mk_ruleset
d='/tmp/scratch/wt/Rules/T3'; shutil.rmtree(d,ignore_errors=True)
A=[( 'w%03d'%i, 1.0/ (2**(i+1)) if i<40 else 1e-13/(i) ) for i in range(300)]
om=dict(ngram=2, ip=[(0,'a'),(1,'b')], cp=[(0,'aa'),(1,'ab'),(0,'ba'),(1,'bb')], ln=[10,0,1,2]+[10]*17, probs=[(1,0.01),(2,0.001),(3,0.0001)], keyspace=[(1,3),(2,5),(3,7)])
mk_ruleset(d,[('A4D1',0.5),('M',0.3),('D1',0.2)],{'A4':A,'C4':[('LLLL',0.75),('ULLL',0.25)],'D1':[(str(i), p) for i,p in enumerate([0.3,0.2,0.15,0.1,0.08,0.07,0.05,0.03,0.015,0.005])]}, omen=om)
def run(args, **kw):
    return subprocess.run(['/venv/bin/python','/tmp/scratch/wt/pcfg_guesser.py','-r','T3']+args, capture_output=True, timeout=120, **kw)
full=run(['-s','full','--skip_brute','--all_lower'],input=b'\n').stdout.decode().splitlines()
fulld=run(['-s','fulld'],input=b'\n').stdout.decode().splitlines()
print('full skip/lower',len(full),'default',len(fulld))
# start with flags, quit quickly
p=run(['-s','ses','--skip_brute','--all_lower'],input=b'q\n')
a=p.stdout.decode().splitlines(); print('A lines',len(a)); print(open('/tmp/scratch/wt/ses.sav').read())
p=run(['-s','ses','--load'],input=b'\n')
b=p.stdout.decode().splitlines(); print('B lines',len(b), 'upper in B:',sum(1 for x in b if x!=x.lower()), 'set(A+B)==set(full)', set(a[1:]+b[1:])==set(full[1:]), 'B subset full', set(b[1:])<=set(full[1:]))
print(p.stderr.decode()[-400:])
