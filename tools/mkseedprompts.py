#!/usr/bin/env python3
"""Write the prompts for a new wave of independently seeded changes: tools/mkseedprompts.py <wave-dir> [<Cxx> ...]
   The prompt holds the property text, the list of mechanisms already used for it (from the DESIGN.md tables) and, optionally, a clause to aim at.
   It also creates the scratch worktrees <wave-dir>/<Cxx>/wt of /repo HEAD.  Nothing under /verif is shown to the agents."""
import os, sys, json, re, subprocess
V = os.path.dirname(os.path.dirname(os.path.abspath(__file__)))
CLAUSE = {
 'C01': 'rarely used paths: the PRINCE base-structure folder, --all_lower, rulesets whose files were written by another tool of the project (edit_rules.py) or with unusual-but-legal number formats / line endings / trailing blank lines',
 'C02': 'grammars with very many base structures or very long structures (10+ variables), single-entry variables, or structures that are prefixes of one another',
 'C03': 'trainer option combinations (--alphabet, --ngram, --coverage, --multiword, --prefixcount, --save_sensitive, legacy encodings) and passwords at the length limits of the detectors',
 'C04': 'capitalisation masks on words containing non-letters or non-ASCII letters, several alpha variables in one structure, or the --limit argument cutting an expansion short',
 'C05': 'the interaction of two detectors on one password (keyboard walk next to a year, context string inside a multiword, e-mail followed by digits ...) or the length limits (min/max) of a detector',
 'C06': 'the config.ini fields, the PRINCE grammar, capitalisation mask lists, or a training list with exactly one password / one structure',
 'C07': 'the configuration file (encoding, uuid, file lists) as read by each tool, or rulesets copied / renamed / edited by edit_rules.py',
 'C08': 'the save file itself (what is written, how it is parsed back: number formats, very small probabilities, locale, interrupted writes) or --load combined with other flags',
 'C09': 'the honeyword / random-walk modes, --limit 0 or negative or huge, or the interplay of --limit with --skip_brute / --all_lower',
 'C10': 'models with empty levels, a single initial n-gram, maximum length equal to the n-gram size, or very many strings at one level',
 'C11': 'characters outside the learned alphabet, strings shorter than the n-gram size, or the smoothing / level-adjust arithmetic at the boundaries 0 and 10',
 'C12': 'what happens at start-up and shut-down of the keyboard thread (very short runs, runs that finish before the thread starts, exceptions in the generator)',
 'C13': 'the scorer command-line paths (input file encodings, --prefixcount-like options, output formats) or strings at the length limits of the detectors',
 'C14': 'the two flags combined with each other, with --load, with the PRINCE folder, or with rulesets in which the Markov structure is the only / the first / the last one',
 'C15': 'three or more quit/resume cycles that mix quits inside levels and outside, sessions resumed with another session name, or .sav/.omn files left over from an earlier session',
 'C16': 'the --limit argument in honeyword mode, rulesets with a Markov structure and --skip_brute absent, or single-entry tables',
 'C17': 'the e-mail provider / website host entries of the PRINCE grammar, --all_lower, or --size larger than / equal to the list',
 'C18': 'levels above 10, lengths at the maximum, or the relation between omen_pws_per_level.txt and pcfg_omen_prob.txt',
 'C19': 'line endings (CRLF, lone CR, no final newline), a byte-order mark, count prefixes with unusual spacing / zero / huge counts, or encodings other than UTF-8',
 'C20': 'several filters combined, labels with multi-digit lengths, rulesets without some directories, or running the editor twice in a row',
}
def used():
    out = {}
    for line in open(os.path.join(V, 'DESIGN.md')):
        m = re.match(r'\| seeded/(C\d\d)\w* \| (.*?) \| (C\d\d) \|', line)
        if m and m.group(2) not in out.setdefault(m.group(1), []):
            out[m.group(1)].append(m.group(2))
    return out
def main():
    wave = os.path.abspath(sys.argv[1])
    props = {json.loads(l)['id']: json.loads(l) for l in open(os.path.join(V, 'properties.jsonl'))}
    ids = sys.argv[2:] or sorted(props)
    U = used()
    tmpl = open(os.path.join(V, 'tools', 'seedprompt.tmpl')).read()
    os.makedirs(wave, exist_ok=True)
    for pid in ids:
        p = props[pid]
        d = os.path.join(wave, pid)
        os.makedirs(d, exist_ok=True)
        mechs = '; '.join(f'({i + 1}) {m}' for i, m in enumerate(U.get(pid, [])))
        txt = tmpl.replace('@DIR@', d).replace('@ID@', pid).replace('@TITLE@', p.get('title', '')).replace('@STATEMENT@', p.get('statement', ''))
        txt = txt.replace('@QUANT@', p['quantifier']['text']).replace('@CODE@', ', '.join(p['anchors']['files']))
        txt = txt.replace('@USED@', mechs).replace('@CLAUSE@', CLAUSE[pid])
        open(os.path.join(wave, f'prompt_{pid}.txt'), 'w').write(txt)
        if not os.path.exists(os.path.join(d, 'wt')):
            subprocess.run(['git', '-C', '/repo', 'worktree', 'add', '--detach', os.path.join(d, 'wt'), 'HEAD'], check=True, capture_output=True)
    print('prompts in', wave)
main()
