#!/usr/bin/env python3
"""Write the prompts for a new wave of independently seeded changes: tools/mkseedprompts.py <wave-dir> [<Cxx> ...]
   The prompt holds the property text, the list of mechanisms already used for it (from the DESIGN.md tables) and, optionally, a clause to aim at.
   It also creates the scratch worktrees <wave-dir>/<Cxx>/wt of /repo HEAD.  Nothing under /verif is shown to the agents."""
import os, sys, json, re, subprocess
V = os.path.dirname(os.path.dirname(os.path.abspath(__file__)))
import os as _os
SHIFT = int(_os.environ.get('SEED_MOTIVE_SHIFT', '0'))
MOTIVES_A = [
 'a lint / modernisation clean-up (f-strings, `==` vs `is`, comprehension or `enumerate` rewrites, `dict.get` / `setdefault`, `sorted` vs `.sort`, integer vs true division, default arguments, removing an "unused" variable or a "redundant" copy, replacing a hand-written loop by a library call whose corner cases differ)',
 'a portability change (open() with or without encoding / newline arguments, os.linesep, text vs binary mode, locale-dependent functions, path handling, Windows consoles, Python-version differences in str / float / random behaviour)',
 'hardening of error handling (a try/except that swallows or re-routes an error, a new validation that rejects or silently drops legal input, a retry, a default value substituted for a failure)',
 'a small new feature or option whose default is supposed to keep the old behaviour but does not in some corner (a new CLI flag, a new config field, a new output format, an environment variable)',
]
# second set (waves 13+): SEED_MOTIVE_SET=B
MOTIVES_B = [
 'a performance optimisation (a cache or memo keyed too coarsely, an early exit, batching of writes, avoiding a copy so that two users now share one object, a generator in place of a list that is consumed twice, a pre-computed table, lazy loading)',
 'a refactoring (two similar blocks that differ in a detail merged into one helper, code moved between functions so that it now runs at another moment or another number of times, a helper changed for one caller that has a second caller, state moved from a local to an attribute or module global)',
 'a change to start-up, shutdown or interruption handling (signal handlers, atexit, flushing and closing of files, KeyboardInterrupt / BrokenPipe handling, thread start / join, what is saved when, temporary files)',
 'a data-format or bookkeeping change (how numbers are formatted or parsed, rounding, sort keys and tie-breaks, de-duplication, normalisation of strings, line ends, what counts as empty, off-by-one in a counter that is also used elsewhere)',
]
# third set (wave 17+): SEED_MOTIVE_SET=C
MOTIVES_C = [
 'a memory-use reduction (streaming instead of building a list, a generator or iterator handed to code that walks it twice, dropping a field that "nobody reads", slots / interning, clearing a structure early, sharing one object instead of copying)',
 'a logging / progress / statistics addition (a counter, a debug print, a summary line, a timing) that touches or consumes the data it reports on, or writes where the data goes',
 'a security / privacy hardening (file permissions, temporary files, sanitising or normalising input, limiting sizes or counts, refusing suspicious names or characters, not echoing passwords)',
 'a compatibility shim (another Python version, another operating system, a missing optional module, another locale or console), whose fallback path differs from the main path in a corner',
]
MOTIVES = {'A': MOTIVES_A, 'B': MOTIVES_B, 'C': MOTIVES_C}[_os.environ.get('SEED_MOTIVE_SET', 'A')]
CLAUSE = {pid: 'the change should look like ' + MOTIVES[(i + SHIFT) % len(MOTIVES)] for i, pid in enumerate(['C%02d' % k for k in range(1, 21)])}
def used():
    out = {}
    for line in open(os.path.join(V, 'DESIGN.md')):
        m = re.match(r'\| seeded/(C\d\d)\w* \| (.*?) \| (C\d\d) \|', line)
        if m and m.group(2) not in out.setdefault(m.group(1), []):
            out[m.group(1)].append(m.group(2))
    return out
def main():
    wave = os.path.abspath(sys.argv[1])
    props = {json.loads(l)['id']: json.loads(l) for l in open(os.path.join(V, 'properties.jsonl'))}
    ids = sys.argv[2:] or sorted(props)
    U = used()
    tmpl = open(os.path.join(V, 'tools', 'seedprompt.tmpl')).read()
    os.makedirs(wave, exist_ok=True)
    for pid in ids:
        p = props[pid]
        d = os.path.join(wave, pid)
        os.makedirs(d, exist_ok=True)
        mechs = '; '.join(f'({i + 1}) {m}' for i, m in enumerate(U.get(pid, [])))
        txt = tmpl.replace('@DIR@', d).replace('@ID@', pid).replace('@TITLE@', p.get('title', '')).replace('@STATEMENT@', p.get('statement', ''))
        txt = txt.replace('@QUANT@', p['quantifier']['text']).replace('@CODE@', ', '.join(p['anchors']['files']))
        txt = txt.replace('@USED@', mechs).replace('@CLAUSE@', CLAUSE[pid])
        open(os.path.join(wave, f'prompt_{pid}.txt'), 'w').write(txt)
        if not os.path.exists(os.path.join(d, 'wt')):
            subprocess.run(['git', '-C', '/repo', 'worktree', 'add', '--detach', os.path.join(d, 'wt'), 'HEAD'], check=True, capture_output=True)
    print('prompts in', wave)
main()
