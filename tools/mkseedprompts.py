#!/usr/bin/env python3
"""Write the prompts for a new wave of independently seeded changes: tools/mkseedprompts.py <wave-dir> [<Cxx> ...]
   The prompt holds the property text, the list of mechanisms already used for it (from the DESIGN.md tables) and, optionally, a clause to aim at.
   It also creates the scratch worktrees <wave-dir>/<Cxx>/wt of /repo HEAD.  Nothing under /verif is shown to the agents."""
import os, sys, json, re, subprocess
V = os.path.dirname(os.path.dirname(os.path.abspath(__file__)))
CLAUSE = {
 'C01': 'the determinism clause (the emitted sequence is a function of the ruleset and the flags only: not of PYTHONHASHSEED, dict/set/os.listdir order, earlier grammars loaded in the process, the locale ...) or the "probability attached to a group equals that product" clause',
 'C02': 'the clause about a base structure that repeats a variable type (A3A3, D2O1D2 ...) or grammars where several parents tie exactly',
 'C03': 'passwords with spaces, non-ASCII letters, digits next to symbols, or the "probabilities of all emitted guesses sum to 1" clause',
 'C04': 'the "number of guesses the guesser reports for the group equals the number of lines it wrote" clause or the Markov pre-terminal = OMEN level clause',
 'C05': 'years, keyboard walks, "other" segments, or the "counters the trainer accumulates are exactly the tallies of these segments" clause',
 'C06': 'the ordering clause (most to least probable), the Markov pseudo-count clause, or the byte-identical determinism clause',
 'C07': 'the OMEN loaders, the scorer loader, non-BMP characters, or the "file lists in config name exactly the files that exist" clause',
 'C08': 'the UUID refusal clause, the "nothing more probable than the saved position" clause, or histories with three or more quit/resume cycles',
 'C09': 'the "writes nothing but guesses to standard output" clause on unusual paths (errors, warnings, odd flags), or --limit inside a Markov level',
 'C10': 'the "then reports exhaustion" clause or the dependence on which levels were generated before',
 'C11': 'differences between the three implementations in alphabet handling, encoding, n-gram size or length limits',
 'C12': 'stdin closed / at EOF / not a terminal, help requests, or a quit arriving while a save is in progress',
 'C13': 'the "score depends only on the string and the ruleset" clause or the e-mail / website classification clause',
 'C14': 'the "whether or not the ruleset contains a Markov structure at all" clause or the "--all_lower ... and nothing else changes" clause',
 'C15': 'the "later quit/resume cycles do not replay that remainder again" clause or a quit at the very first / very last string of a level',
 'C16': 'the honeyword mode (exactly N words, membership) or the reproducibility clause of random-walk mode',
 'C17': 'the "writes the same list to a file as to standard output" clause or the "(type, value, capitalisation) once" clause',
 'C18': 'the "saved probability is the fraction of training passwords at that level divided by that keyspace" clause',
 'C19': 'the "undecodable bytes are skipped and counted without aborting" clause or the "all three training passes see the same password sequence" clause',
 'C20': 'the "no other file touched" clause, the terminal-set filter, or the "every non-Markov guess has a length within the requested bounds" clause',
}
def used():
    out = {}
    for line in open(os.path.join(V, 'DESIGN.md')):
        m = re.match(r'\| seeded/(C\d\d)\w* \| (.*?) \| (C\d\d) \|', line)
        if m and m.group(2) not in out.setdefault(m.group(1), []):
            out[m.group(1)].append(m.group(2))
    return out
def main():
    wave = os.path.abspath(sys.argv[1])
    props = {json.loads(l)['id']: json.loads(l) for l in open(os.path.join(V, 'properties.jsonl'))}
    ids = sys.argv[2:] or sorted(props)
    U = used()
    tmpl = open(os.path.join(V, 'tools', 'seedprompt.tmpl')).read()
    os.makedirs(wave, exist_ok=True)
    for pid in ids:
        p = props[pid]
        d = os.path.join(wave, pid)
        os.makedirs(d, exist_ok=True)
        mechs = '; '.join(f'({i + 1}) {m}' for i, m in enumerate(U.get(pid, [])))
        txt = tmpl.replace('@DIR@', d).replace('@ID@', pid).replace('@TITLE@', p.get('title', '')).replace('@STATEMENT@', p.get('statement', ''))
        txt = txt.replace('@QUANT@', p['quantifier']['text']).replace('@CODE@', ', '.join(p['anchors']['files']))
        txt = txt.replace('@USED@', mechs).replace('@CLAUSE@', CLAUSE[pid])
        open(os.path.join(wave, f'prompt_{pid}.txt'), 'w').write(txt)
        if not os.path.exists(os.path.join(d, 'wt')):
            subprocess.run(['git', '-C', '/repo', 'worktree', 'add', '--detach', os.path.join(d, 'wt'), 'HEAD'], check=True, capture_output=True)
    print('prompts in', wave)
main()
