import sys, random, time, os
sys.path.insert(0,'/verif'); sys.path.append('/verif/.deps')
from vlib import repo, trainer, trainlists
repo.scratch()
rng=random.Random(2)
items=trainlists.gen_list(rng,'utf-8')
print(items)
name,path=repo.new_rules_dir('t')
t=time.time()
r=trainer.train(trainlists.render_plain(items,'utf-8'), path, coverage=0.6, ngram=3, max_len=8)
print('ok',r.ok, round(time.time()-t,3), len(r.segmented), [ (len(p['yielded']),p['num_passwords']) for p in r.passes], r.exc)
for pw,seg in r.segmented[:8]: print(repr(pw), seg)
print(os.listdir(path), open(path+'/Grammar/grammar.txt').read()[:300])
print(r.stdout[-300:])
