import sys, time, random
sys.path.insert(0,'/verif'); sys.path.append('/verif/.deps')
from vlib import evidence, repo
from vlib.props import c01
repo.scratch()
run = evidence.Run('C01','quick',0,'exploration','x')
rng = random.Random(int(sys.argv[1]) if len(sys.argv)>1 else 1)
for i in range(int(sys.argv[2]) if len(sys.argv)>2 else 15):
    case = c01.gen_case(rng)
    t=time.time()
    print(i, case['spec']['base'], case['flags'], flush=True)
    c01.check_case(run, case, determinism=False)
    print('   ', round(time.time()-t,2), run.evals, len(run.violations), dict(run.events))
    for v in run.violations: print(v['what'])
