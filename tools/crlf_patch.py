#!/usr/bin/env python3
"""Exact-once text replacement that preserves a file's line endings (most pcfg_cracker sources are CRLF).
usage: crlf_patch.py FILE OLD_FILE NEW_FILE   (OLD/NEW hold LF text)"""
import sys
def patch(path, old, new, count=1):
    raw = open(path, 'rb').read()
    crlf = b'\r\n' in raw
    text = raw.decode('utf-8')
    if crlf:
        old = old.replace('\r\n', '\n').replace('\n', '\r\n')
        new = new.replace('\r\n', '\n').replace('\n', '\r\n')
    n = text.count(old)
    if n != count:
        raise SystemExit(f"{path}: expected {count} occurrence(s) of old text, found {n}")
    text = text.replace(old, new)
    open(path, 'wb').write(text.encode('utf-8'))
if __name__ == '__main__':
    patch(sys.argv[1], open(sys.argv[2]).read(), open(sys.argv[3]).read())
