import sys, time, random, faulthandler
sys.path.insert(0,'/verif'); sys.path.append('/verif/.deps')
faulthandler.dump_traceback_later(100, exit=True)
from vlib import evidence, repo, cli, gstream, session
from vlib.props import c12
repo.scratch()
rng = random.Random(1)
spec = c12.big_spec(rng)
name, path = gstream.materialise(spec, 'dbg')
U = session.run_main(['-r', name, '-s', 'dbgs'])
print('U', len(U.guesses))
for mode, data in c12.STDIN_CONDITIONS:
    t=time.time()
    out, err, rc, to = cli.run_cli('pcfg_guesser.py', ['-r', name, '-s', 'x'+mode], stdin_mode=mode, data=data, timeout=20)
    print(mode, data, len(out.split(b'\n'))-1, rc, to, round(time.time()-t,2), err[-80:])
