#!/usr/bin/env python3
"""Confirm an independently written breaking change and run the checks against it.

usage: tools/seeded.py confirm <ID> <srcdir> [--props C04,C02] [--tier quick] [--name NAME]
   srcdir holds patch.diff, demo.py (argv[1] = tree), notes.md
usage: tools/seeded.py rerun [<name> ...] [--tier quick|thorough]     re-run the recorded checks against every kept change

Everything happens in a scratch git worktree of /repo (never in /repo itself), removed afterwards."""
import os, sys, json, shutil, subprocess, tempfile, argparse, glob, time
VERIF = os.path.dirname(os.path.dirname(os.path.abspath(__file__)))
PY = '/venv/bin/python'

def sh(cmd, **kw):
    return subprocess.run(cmd, capture_output=True, text=True, **kw)

def with_worktree(fn):
    tmp = tempfile.mkdtemp(prefix='seedchk_')
    wt = os.path.join(tmp, 'wt')
    r = sh(['git', '-C', '/repo', 'worktree', 'add', '--detach', wt, 'HEAD'])
    if r.returncode != 0:
        raise SystemExit(r.stderr)
    try:
        return fn(wt, tmp)
    finally:
        sh(['git', '-C', '/repo', 'worktree', 'remove', '--force', wt])
        shutil.rmtree(tmp, ignore_errors=True)

def run_demo(demo, wt):
    r = sh([PY, '-B', '-W', 'ignore', demo, wt], env=dict(os.environ, PCFG_WT=wt, PYTHONDONTWRITEBYTECODE='1'), timeout=900, cwd=os.path.dirname(demo))
    return r.returncode, (r.stdout + r.stderr)[-400:]

def run_checks(wt, tmp, props, tier):
    out = {}
    for p in props:
        env = dict(os.environ, VERIF_REPO=wt, VERIF_EVIDENCE_DIR=os.path.join(tmp, 'ev'), VERIF_REPLAY_DIR=os.path.join(tmp, 'rp'))
        t0 = time.time()
        r = sh([os.path.join(VERIF, 'check'), p, '--tier', tier], env=env, timeout=7200)
        what = next((l.strip() for l in r.stdout.split('\n') if l.startswith('  what:')), '')
        out[p] = {'exit': r.returncode, 'first_violation': what[:300], 'wall_s': round(time.time() - t0, 1), 'tier': tier}
    return out

def confirm(a):
    src = a.srcdir
    name = a.name or a.id
    dst = os.path.join(VERIF, 'seeded', name)
    demo = next(iter(glob.glob(os.path.join(src, 'demo*.py')) + glob.glob(os.path.join(src, 'test_demo*.py'))))
    props = a.props.split(',') if a.props else [a.id]
    def body(wt, tmp):
        meta = {'property': a.id, 'checks_run': props, 'ran': []}
        rc0, out0 = run_demo(demo, wt)
        meta['demo_without_change'] = rc0
        ap = sh(['git', '-C', wt, 'apply', '--whitespace=nowarn', os.path.join(src, 'patch.diff')])
        if ap.returncode != 0:
            raise SystemExit('patch does not apply: ' + ap.stderr)
        t = sh([PY, '-m', 'pytest', '-q', '-p', 'no:cacheprovider'], cwd=wt)
        meta['repo_tests_with_change'] = t.stdout.strip().split('\n')[-1]
        rc1, out1 = run_demo(demo, wt)
        meta['demo_with_change'] = rc1
        meta['demo_output_tail'] = out1[-300:]
        meta['confirmed'] = (rc0 == 0 and rc1 != 0 and ' passed' in meta['repo_tests_with_change'] and 'failed' not in meta['repo_tests_with_change'])
        meta['checks'] = run_checks(wt, tmp, props, a.tier)
        return meta
    meta = with_worktree(body)
    notes = open(os.path.join(src, 'notes.md')).read() if os.path.exists(os.path.join(src, 'notes.md')) else ''
    meta['needs_to_manifest'] = notes[:1500]
    meta['what_was_run'] = ['git worktree of /repo HEAD', 'demo on the clean tree (expect exit 0)', 'git apply patch.diff', 'repository tests', 'demo on the patched tree (expect non-zero)',
                            f'./check <prop> --tier {a.tier} with VERIF_REPO=<patched worktree>']
    print(json.dumps({k: v for k, v in meta.items() if k != 'needs_to_manifest'}, indent=1))
    if meta['confirmed']:
        os.makedirs(dst, exist_ok=True)
        shutil.copy(os.path.join(src, 'patch.diff'), dst)
        shutil.copy(demo, os.path.join(dst, os.path.basename(demo)))
        if notes:
            shutil.copy(os.path.join(src, 'notes.md'), dst)
        json.dump(meta, open(os.path.join(dst, 'meta.json'), 'w'), indent=1)
        print('kept as', dst)
    else:
        print('NOT CONFIRMED - not kept')

def rerun(a):
    names = a.names or sorted(os.listdir(os.path.join(VERIF, 'seeded')))
    bad = 0
    for name in names:
        d = os.path.join(VERIF, 'seeded', name)
        if not os.path.exists(os.path.join(d, 'meta.json')):
            continue
        meta = json.load(open(os.path.join(d, 'meta.json')))
        if meta.get('superseded_by'):
            print(f'skipped {name:<27} superseded by ' + meta['superseded_by'][:60])
            continue
        if meta.get('out_of_scope'):
            print(f'skipped {name:<27} not a violation of the property as read: ' + meta['out_of_scope'][:90])
            continue
        def body(wt, tmp):
            ap = sh(['git', '-C', wt, 'apply', '--whitespace=nowarn', os.path.join(d, 'patch.diff')])
            if ap.returncode != 0:
                return {'patch': 'does not apply: ' + ap.stderr[:200]}
            return run_checks(wt, tmp, meta['checks_run'], meta.get('tier', a.tier))      # meta['tier']: a change only the thorough tier can reach
        res = with_worktree(body)
        meta.setdefault('reruns', []).append({'tier': a.tier, 'results': res})
        meta['checks'] = res if a.tier == 'quick' else meta.get('checks')
        if a.tier != 'quick':
            meta['checks_thorough'] = res
        json.dump(meta, open(os.path.join(d, 'meta.json'), 'w'), indent=1)
        for p, r in res.items():
            ok = isinstance(r, dict) and r.get('exit') == 1
            bad += not ok
            print(f"{'caught' if ok else 'MISSED'} {name:<28} {p} {r if not isinstance(r, dict) else (r['exit'], r['first_violation'][:140])}")
    print('missed:', bad)

if __name__ == '__main__':
    ap = argparse.ArgumentParser()
    sub = ap.add_subparsers(dest='cmd')
    c = sub.add_parser('confirm'); c.add_argument('id'); c.add_argument('srcdir'); c.add_argument('--props'); c.add_argument('--tier', default='quick'); c.add_argument('--name')
    r = sub.add_parser('rerun'); r.add_argument('names', nargs='*'); r.add_argument('--tier', default='quick')
    a = ap.parse_args()
    confirm(a) if a.cmd == 'confirm' else rerun(a)
