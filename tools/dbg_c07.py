import sys, random
sys.path.insert(0,'/verif'); sys.path.append('/verif/.deps')
from vlib import repo, trainer
from vlib.props import c07
repo.scratch()
rng=random.Random(0)
allc=[c for c in range(0x10000) if not (0xd800<=c<0xe000)]
for b in range(0,len(allc),200):
    cps=allc[b:b+200]
    pws=[p for p in c07.passwords_for(cps)]+['plain1','word','word','pass12','pass12!']
    data=b''.join(b'$HEX['+p.encode('utf-8').hex().encode()+b']\n' for p in pws)
    name,path=repo.new_rules_dir('d')
    res=trainer.train(data,path,encoding='utf-8',coverage=0.6,ngram=3,alphabet_size=5000,max_len=21)
    if not res.ok:
        print(hex(cps[0]), res.exc, res.stdout[-700:])
    repo.drop_rules(name)
