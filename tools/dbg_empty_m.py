import sys, random, os
sys.path.insert(0,'/verif'); sys.path.append('/verif/.deps')
from vlib import repo, trained
repo.scratch()
rng=random.Random(7)
n=0; empty=0; notok=0
for i in range(300):
    tr = trained.gen_train_case(rng, max_len_choices=(21,), coverages=(0.6, 0.9))
    tr['alphabet']=rng.choice([4,5,6,8,10])
    name,path,res=trained.train_case(tr,'d')
    n+=1
    if not res.ok: notok+=1
    else:
        if os.path.getsize(os.path.join(path,'Omen','pcfg_omen_prob.txt'))==0: empty+=1
    repo.drop_rules(name)
print(n, 'not ok', notok, 'empty M', empty)
