#!/usr/bin/env python3
"""Writes /verif/known_findings.json (committed; never modified at run time by any check)."""
import json
F = []
def fixed(prop, commit, what, witness, fid):
    F.append({'status': 'fixed', 'id': fid, 'property': prop, 'commit': commit, 'what': what, 'witness': witness,
              'line': f'fixed: property={prop} {commit} {what}'})
def finding(prop, key, what, witness, fid):
    F.append({'status': 'finding', 'id': fid, 'property': prop, 'key': key, 'what': what, 'witness': witness})

fixed('C08', '703e765', "is_parent_around used '<': a pre-terminal whose adopting parent ties with the saved probability was restored AND re-created, i.e. emitted twice with probability below the saved position",
      {'ruleset': 'A1D1 with group probabilities 0.5/0.3/0.2 x 0.5/0.3/0.2', 'cut': 'quit at the pre-terminal with probability 0.09'}, 'F-C08')
fixed('C09', '1320342', 'print_banner() began with a bare print(): first stdout line of every run was empty', {'cmd': 'pcfg_guesser.py -r <any> -n 3'}, 'F-C09')
fixed('C09', '0e5d105', 'error paths of the guesser printed diagnostics to stdout (unwritable .sav message between guesses, --limit validation, "Exiting", loader and OMEN load errors)', {'cmd': 'pcfg_guesser.py -r R -s S  with S.sav being a directory', 'stdout': '[Errno 21] Is a directory: ... / Error writing sessiong restore file'}, 'F-C09b')
fixed('C16', '7b05ecf', 'random_walk compared running sums with an unscaled uniform draw: on a ruleset whose probabilities do not add up to 1 (edit_rules output, rounding) a draw above the total selected no base structure (IndexError in create_guesses) or silently kept group 0', {'ruleset': 'base structures summing to 0.6', 'draw': 'u = 0.8'}, 'F-C16')
fixed('C16', 'efb78ab', 'the trainer wrote a ruleset listing the Markov structure although no OMEN level had any keyspace (pcfg_omen_prob.txt empty): honeyword mode (and the default mode at start-up) died with IndexError when that structure was drawn, so --limit N words were not produced', {'training': 'alphabet 10, ngram 3, passwords whose first n-gram is outside the alphabet', 'coverage': 0.92}, 'F-C16b')
fixed('C02', 'efb78ab', 'same defect seen from the enumeration side: the default-mode guesser cannot even initialise its queue on such a ruleset', {'training': 'as F-C16b'}, 'F-C16b')
fixed('C12', 'e621645', "generation loop treated 'keypress thread not alive' as quit: EOF, /dev/null, closed stdin or an exception in the status printer truncated the run; with the thread parked between should_exit=True and return a Markov level was abandoned while the run went on",
      {'stdin': ['pipe at EOF', '/dev/null', 'closed fd 0'], 'observed': '48 / 48 / 0 of 4011 guesses'}, 'F-C12')
fixed('C12', '916fce6', "keypress() returned on an exception from the status report before looking at the input: a 'q' typed while a restored OMEN remainder is replayed (status report indexes grammar['M'] with a level number -> IndexError) never set should_exit", {'history': 'quit inside a Markov level, --load, q during the replayed remainder', 'ruleset': 'fewer entries in pcfg_omen_prob.txt than the interrupted level number'}, 'F-C12b')
fixed('C14', 'bca71a0', '--skip_brute on a ruleset without an M structure loaded zero base structures (file pointer not rewound when no M line was found)', {'ruleset': 'trained with coverage 1, or edited to drop M'}, 'F-C14a')
fixed('C14', '5e0b064', '--load read rule name / skip_brute / skip_case from the .sav only after the grammar had been built, so saved flags were ignored', {'history': 'run with --skip_brute --all_lower, quit, --load without the flags'}, 'F-C14b')
fixed('C15', '8d78b0c', 'omen_guess_number was never removed from the save config: a later quit/resume outside a Markov level replayed the stale .omn remainder', {'cuts': [4, 4]}, 'F-C15a')
fixed('C17', 'aa7fb19', 'prince_ling --size was only tested between pre-terminals and overshot inside a group of equally probable words', {'size': 'N inside a tied group'}, 'F-C17')
fixed('C18', '3a02b0b', 'calc_omen_keyspace skipped length == ngram and required level - ip_level > 0: recorded keyspace smaller than what the generator emits', {'observed': '81 of 1242 levels undercounted'}, 'F-C18')
fixed('C07', 'de46027', 'U+2029 passed check_valid although every codec-based reader splits lines on it: value unreadable, guesser failed on the orphaned structure', {'password': 'ab\\u2029cd'}, 'F-C07a')
fixed('C19', 'de46027', 'same defect seen from the training-input side (U+2029 inside a line)', {'password': 'ab\\u2029cd'}, 'F-C07a')
fixed('C07', '69864dd', 'OmenScorer opened IP.level/CP.level in the locale encoding instead of the ruleset encoding', {'encoding': 'latin-1 / cp1251 ruleset with non-ASCII n-grams'}, 'F-C07b')
fixed('C11', '69864dd', 'scorer OMEN level disagreed (or scorer failed to load) for non-UTF-8 rulesets', {'encoding': 'latin-1 / cp1251'}, 'F-C07b')
fixed('C19', '5f6218e', "codec readline() also splits on VT/FF/FS/GS/RS/NEL/LS/PS: the tail of a line containing a control character was trained on ('ab\\x0bcd' -> 'cd')", {'line': 'ab\\x0bcd'}, 'F-C19')
fixed('C10', '62a93ce', '_find_first_object scanned range(0, max_level): a model whose only lengths / initial n-grams sit at level 10 raised instead of enumerating', {'model': 'all LN or all IP at level 10'}, 'F-C10')
fixed('C04', 'b0251cf', 'OMEN levels with equal pcfg_omen_prob were merged into one group of which only values[0] was ever generated', {'pcfg_omen_prob.txt': '3\\t0.0 / 5\\t0.0'}, 'F-C04')
fixed('C02', 'b0251cf', 'same defect seen as language loss: the merged levels were never emitted', {'pcfg_omen_prob.txt': 'two levels with equal probability'}, 'F-C04')

fixed('C15', '12a4608', 'quit inside the Markov level of the FINAL pre-terminal of the run: the queue is empty afterwards and the "Done" path returned without saving, so --load restarted the session from the beginning', {'ruleset': 'base structures D1/M/O1 where the least probable pre-terminal is an OMEN level', 'cut': 'any j inside that level'}, 'F-C15b')

fixed('C12', '12a4608', 'quit inside the Markov level of the FINAL pre-terminal of the run: the queue is empty afterwards and the "Done" path returned without saving, so --load restarted the session from the beginning (seen from C12: an explicit quit that does not save the session state)', {'ruleset': 'base structures D1/M/O1 where the least probable pre-terminal is an OMEN level', 'cut': 'any j inside that level'}, 'F-C15b')
fixed('C05', 'c17c8e5', 'password containing U+0130 (the only character whose lower() is longer than itself): e-mail / website / alpha detectors sliced the original string with offsets computed on the lower-cased copy -> empty or mis-aligned segments, wrong length labels, bogus multi-word splits', {'password': '\u0130@a.comx', 'segments': "[('\u0130@a.com','E'),('','O0')]"}, 'F-C05')
fixed('C05', '15df948', 'password made of ~1000 separate keyboard walks: detect_keyboard_walk recurses once per walk and overflowed the default recursion limit -> RecursionError aborted parsing / the training run', {'password': "'1qaz2wsx3edc4rfv' * 250"}, 'F-C05b')

fixed('C13', 'ed5a5e9', 'candidate containing a letter whose case mapping is not one-to-one (title-case U+01C5, capital sharp s U+1E9E, ...): the scorer lower-cased + masked and returned p > 0 although the guesser can only emit lower()/upper() of the stored word, never the candidate itself', {'training': ['\u01c5ungla'], 'candidate': '\u01c5ungla'}, 'F-C13')

fixed('C20', '53ab6ef', 'edit_rules counted a context segment X1 as length 1 although context strings have 2-4 characters: a structure with an X label could survive a length filter and still generate guesses outside the requested bounds', {'structure': 'X1D1', 'options': '--max_length 2', 'guess': 'No.11 (length 5)'}, 'F-C20')

fixed('C17', '9b62e8e', "prince_ling -o FILE aborted in the middle of the list (UnicodeEncodeError from the codec writer) when a capitalised word is not representable in the encoding of the ruleset; stdout went on, so the file was not the list written to stdout", {'ruleset': 'encoding cp1251 / latin-1, alpha word with the micro sign or y-diaeresis, a mask with U at that position', 'cmd': 'prince_ling.py -r R -o FILE'}, 'F-C17b')
fixed('C07', '764867c', "the guesser opened Omen/omen_keyspace.txt in the locale's default encoding although the trainer writes it in the encoding of the ruleset: for a ruleset declared UTF-8-SIG (what the trainer detects for a training list that starts with a byte order mark) the first line starts with U+FEFF, int() raised and pcfg_guesser.py could not load the ruleset at all", {'training': 'trainer.py -t <list starting with EF BB BF> (no -e), or -e utf-8-sig', 'cmd': 'pcfg_guesser.py -r <that ruleset>'}, 'F-C07c')

fixed('C09', '4a2c1bd', "pcfg_guesser.py --load --limit N on a session that was quit inside a Markov (OMEN) level wrote the whole remainder of the level before it started to count: restore_omen() was not given the limit, so the run wrote more than N lines", {'history': 'q after the j-th guess of a Markov level, then --load --limit N with N smaller than the remainder of the level'}, 'F-C09c')

json.dump(F, open('/verif/known_findings.json', 'w'), indent=1)
print(len(F), 'entries')
