#!/usr/bin/env python3
"""Seed sweep on the unchanged tree: tools/sweep.py [--tier quick|thorough] [--seeds 0,1,2] [--jobs N] [--only C01,C02]
   Every (check, seed) runs as `./check Cxx --tier T --seed S` with evidence / replay files redirected to a scratch directory, so the committed
   evidence is not touched.  Prints one line per run (exit status, wall time, peak resident memory of the process tree) and exits 1 if any run
   did not exit 0."""
import argparse, os, resource, subprocess, sys, tempfile, time, shutil
from concurrent.futures import ThreadPoolExecutor
V = os.path.dirname(os.path.dirname(os.path.abspath(__file__)))
def one(pid, tier, seed, out):
    env = dict(os.environ, VERIF_EVIDENCE_DIR=os.path.join(out, f'ev_{seed}'), VERIF_REPLAY_DIR=os.path.join(out, f'rp_{seed}'))
    os.makedirs(env['VERIF_EVIDENCE_DIR'], exist_ok=True); os.makedirs(env['VERIF_REPLAY_DIR'], exist_ok=True)
    log = os.path.join(out, f'{pid}_{tier}_{seed}.log')
    t0 = time.time()
    with open(log, 'wb') as f:
        p = subprocess.Popen(['/usr/bin/time', '-f', 'MAXRSS_KB %M', os.path.join(V, 'check'), pid, '--tier', tier, '--seed', str(seed)], cwd=V, env=env,
                             stdout=f, stderr=subprocess.STDOUT, stdin=subprocess.DEVNULL)
        rc = p.wait()
    txt = open(log, errors='replace').read()
    rss = [l.split()[1] for l in txt.splitlines() if l.startswith('MAXRSS_KB')]
    last = [l for l in txt.splitlines() if l.startswith(f'[{pid} ')]
    return pid, seed, rc, time.time() - t0, int(rss[-1]) // 1024 if rss else -1, (last[-1][:160] if last else txt[-200:].replace('\n', ' | '))
def main():
    ap = argparse.ArgumentParser()
    ap.add_argument('--tier', default='quick'); ap.add_argument('--seeds', default='0,1,2'); ap.add_argument('--jobs', type=int, default=6)
    ap.add_argument('--only', default=''); ap.add_argument('--keep', action='store_true')
    a = ap.parse_args()
    ids = a.only.split(',') if a.only else ['C%02d' % k for k in range(1, 21)]
    seeds = [int(s) for s in a.seeds.split(',')]
    out = tempfile.mkdtemp(prefix='pcfgsweep_')
    bad = 0
    with ThreadPoolExecutor(a.jobs) as ex:
        futs = [ex.submit(one, pid, a.tier, s, out) for s in seeds for pid in ids]
        for f in futs:
            pid, seed, rc, wall, rss, last = f.result()
            print(f'{pid} seed={seed} exit={rc} wall={wall:.0f}s peak_rss={rss}MB  {last}', flush=True)
            bad += rc != 0
    print(f'sweep {a.tier} seeds={seeds}: {len(futs)} runs, {bad} not exit 0; logs in {out}' + ('' if bad or a.keep else ' (removed)'))
    if not bad and not a.keep:
        shutil.rmtree(out, ignore_errors=True)
    sys.exit(1 if bad else 0)
main()
