import sys, time
sys.path.insert(0,'/verif'); sys.path.append('/verif/.deps')
from vlib import repo, evidence
from vlib.props import c05
repo.scratch()
run = evidence.Run('C05','thorough',0,'exploration','x')
for s in ['1qaz2wsx3edc4rfv'*250, '1qaz2wsx3edc4rfv'*2500, ''.join(['1qaz9','zaq1x','qwer1!'][i%3] for i in range(3000))]:
    t=time.time(); c05.check_batch(run, {'history': [], 'strings': [s]}); print(len(s), round(time.time()-t,2), len(run.violations), [v['what'][:100] for v in run.violations[-1:]])
