import sys, time, random, json
sys.path.insert(0,'/verif'); sys.path.append('/verif/.deps')
from vlib import evidence, repo, session
from vlib.props import c15
repo.scratch()
run = evidence.Run('C15','quick',0,'fault_enumeration','x')
case=json.load(open(sys.argv[1]))['case']
t=time.time()
# time individual main runs
orig=session.run_main
def timed(*a,**k):
    t0=time.time(); r=orig(*a,**k); dt=time.time()-t0
    if dt>0.5: print('slow run_main', round(dt,2), a[0], [e for e in r.events if e[0] in('DELIVER','ACTED')])
    return r
session.run_main=timed
c15.session.run_main=timed
c15.check_case(run, case)
print(time.time()-t, len(run.violations), run.events)
