import sys, random, time
sys.path.insert(0,'/verif'); sys.path.append('/verif/.deps')
from vlib import repo, rulesets, session, gstream, sched
repo.scratch()
om=dict(ngram=2, ip=[[0,'a'],[1,'b']], cp=[[0,'aa'],[1,'ab'],[0,'ba'],[1,'bb']], ln=[10,0,1,2], probs=[[1,0.5],[2,0.4],[3,1e-4]], keyspace=[[l,1] for l in range(19)])
spec={'encoding':'utf-8','uuid':'u1','base':[['D1',0.5],['M',0.3],['O1',0.2]],'prince':[],
      'terms':{'D1':[[str(i),p] for i,p in enumerate([0.5,0.3,0.2])],'O1':[['!',0.1],['@',0.05]]},'omen':om}
name,path=gstream.materialise(spec,'dbg')
sn=session.new_session_name()
t=time.time()
U,s0=sched.run_scheduled(['-r',name,'-s',sn])
print('U',U.guesses, 'm yield points', s0.m_idx, 'events', s0.n_events, round(time.time()-t,3))
for p1 in [5, 40, 80]:
  for act in ['', 'q', EOFError, sched.ExplodingStr('x')]:
    for kh,p2 in [(None,None),(3,p1+10),('after_flag',p1+30)]:
        t=time.time()
        r,s=sched.run_scheduled(['-r',name,'-s',sn], [sched.Step(p1,act,kh,p2)])
        print(p1, repr(act)[:12], kh, p2, '->', len(r.guesses), r.guesses==U.guesses[:len(r.guesses)], 'saves',r.saves, s.deliveries, s.problems, s.digest(), round(time.time()-t,3))
import threading; print(threading.active_count())
