import sys, random
sys.path.insert(0,'/verif'); sys.path.append('/verif/.deps')
from vlib import repo, trained
from vlib.props import c06
from collections import Counter
repo.scratch()
rng=random.Random(5)
why=Counter()
for i in range(80):
    case=c06.gen_case(rng)
    name,path,res=trained.train_case(case,'d')
    if not res.ok:
        last=[l for l in res.stdout.strip().split('\n') if l.strip()][-1][:80]
        why[(repr(res.exc), last, case['ngram'], case['max_len'], case['alphabet'])]+=1
    repo.drop_rules(name)
for k,v in why.most_common(): print(v,k)
