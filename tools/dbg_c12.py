import sys, time, random, faulthandler
sys.path.insert(0,'/verif'); sys.path.append('/verif/.deps')
faulthandler.dump_traceback_later(int(sys.argv[2]) if len(sys.argv)>2 else 25, exit=True)
from vlib import evidence, repo
from vlib.props import c12
repo.scratch()
run = evidence.Run('C12','quick',0,'fault_enumeration','x')
rng = random.Random(int(sys.argv[1]) if len(sys.argv)>1 else 1)
case = c12.gen_case(rng)
from vlib import sched
orig=sched.run_scheduled
def timed(argv, schedule=None, trigger=None):
    t0=time.time(); r=orig(argv, schedule, trigger); dt=time.time()-t0
    if dt>0.3: print('SLOW', round(dt,2), [x.as_list() for x in (schedule or [])], r[1].deliveries, r[1].problems, len(r[0].guesses))
    return r
sched.run_scheduled=timed
t=time.time()
c12.check_case(run, case, 'quick')
print(round(time.time()-t,2), run.evals, len(run.violations), dict(run.events), {k:len(v) for k,v in run.sets.items()}, run.inconclusive_why)
for v in run.violations[:3]: print(v['what'], v['observed'])
