#!/usr/bin/env python3
"""Validate MANIFEST.json and evidence/*.json against the schemas (run with python3-vt)."""
import json, sys, glob, jsonschema
ok = True
m = json.load(open('/verif/MANIFEST.json')) if len(sys.argv) < 2 or sys.argv[1] != '--ev-only' else None
if m is not None:
    jsonschema.validate(m, json.load(open('/root/.vp/MANIFEST.schema.json')))
    print('MANIFEST ok:', len(m['checks']), 'checks;', 'not_applicable:', [x['property_id'] for x in m.get('not_applicable', [])])
es = json.load(open('/root/.vp/EVIDENCE.schema.json'))
for f in sorted(glob.glob('/verif/evidence/*.json')):
    try:
        jsonschema.validate(json.load(open(f)), es)
        print('ok ', f)
    except Exception as e:
        ok = False
        print('BAD', f, str(e)[:300])
sys.exit(0 if ok else 1)
