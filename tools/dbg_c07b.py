import sys, random
sys.path.insert(0,'/verif'); sys.path.append('/verif/.deps')
from vlib import repo, trainer, main as _m
from vlib.props import c07
import random
repo.scratch()
for shard in range(16):
    rng = random.Random(_m.stable_seed(0, 'C07', 'thorough', shard))
    for case in c07.gen_cases(rng, 'thorough', (shard,16)):
        enc=case['encoding']
        pws=[]
        for pw in c07.passwords_for(case['cps']):
            try: pw.encode(enc)
            except UnicodeEncodeError: continue
            pws.append(pw)
        if not pws: continue
        pws += ['plain1', 'word', 'word', 'pass12', 'pass12!', 'iloveyou1234567!!', 'Sunshine20011234567']
        data=b''.join(b'$HEX['+p.encode(enc).hex().encode()+b']\n' for p in pws)
        name,path=repo.new_rules_dir('d')
        res=trainer.train(data,path,encoding=enc,coverage=case['coverage'],ngram=case['ngram'],alphabet_size=5000,max_len=21)
        if not res.ok:
            print(shard, enc, hex(case['cps'][0]), len(case['cps']), res.exc, res.stdout[-500:])
        repo.drop_rules(name)
