import sys, random
sys.path.insert(0,'/verif'); sys.path.append('/verif/.deps')
from vlib import repo, rulesets, session, gstream
repo.scratch()
rng=random.Random(3)
om=dict(ngram=2, ip=[[0,'a'],[1,'b']], cp=[[0,'aa'],[1,'ab'],[0,'ba'],[1,'bb']], ln=[10,0,1,2], probs=[[1,0.25],[2,0.01]], keyspace=[[l,1] for l in range(19)])
spec={'encoding':'utf-8','uuid':'u1','base':[['D1',0.5],['M',0.3],['O1',0.2]],'prince':[],
      'terms':{'D1':[[str(i),p] for i,p in enumerate([0.5,0.3,0.1,0.05,0.03,0.02])],'O1':[['!',0.6],['@',0.3],['#',0.1]]},'omen':om}
name,path=gstream.materialise(spec,'dbg')
sn=session.new_session_name()
U=session.run_main(['-r',name,'-s',sn])
print('U',U.guesses, len(U.pops), U.saves)
def trig_at(n):
    def t(ev,ctx):
        if ev[0]=='GUESS' and ev[1]==n:
            ok=ctx.deliver('q'); 
    return t
for cuts in [[4,None],[4,4,None],[6,None],[2,2,2,None]]:
    session.drop_session(sn)
    allg=[]
    for i,c in enumerate(cuts):
        r=session.run_main(['-r',name,'-s',sn]+(['--load'] if i else []), trigger=trig_at(c) if c else None)
        print(' cut',c,'->',r.guesses, 'saves',r.saves, 'omn' , session.read_sav(sn).has_option('guessing_info','omen_guess_number'))
import threading; print('threads', threading.active_count())
