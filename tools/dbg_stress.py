import sys, json, random, time
sys.path.insert(0,'/verif'); sys.path.append('/verif/.deps')
from vlib import repo, session, gstream, cli
from vlib.props import c15
from collections import Counter
repo.scratch()
case=json.load(open(sys.argv[1]))['case']
name,path=gstream.materialise(case['spec'],'dbg')
sn='dbgs'
U=session.run_main(['-r',name,'-s',sn+'ref'])
Upg=c15.pops_with_guesses(U)
print('U pops', [(k[0][0], k[1], p, len(g)) for k,p,g in Upg[:5]], len(U.guesses))
lvl={}
for k,p,g in Upg:
    for x in g: lvl[x]=(k[1],p)
for trial in range(4):
    session.drop_session(sn)
    delays=[float(x) for x in sys.argv[2:]] or [0.3,0.1]
    tot=Counter()
    for cyc,d in enumerate(delays+[None]):
        args=['-r',name,'-s',sn]+(['--load'] if cyc else [])
        if d is None:
            out,err,rc,to=cli.run_cli('pcfg_guesser.py',args,stdin_mode='open',timeout=300,max_out=256<<20)
        else:
            out,err,rc,to=cli.run_cli('pcfg_guesser.py',args,stdin_mode='timed',data=[(d,b'q\n')],timeout=300,max_out=256<<20)
        lines=out.decode().split('\n')[:-1]
        tot.update(lines)
        cfg=session.read_sav(sn)
        gi=dict(cfg['guessing_info']) if cfg.has_section('guessing_info') else {}
        first=lvl.get(lines[0]) if lines else None; last=lvl.get(lines[-1]) if lines else None
        print(' cyc',cyc,'delay',d,'lines',len(lines),'first in',first,'last in',last,'sav',gi, 'done', b'Done processing' in err)
    sur=tot-Counter(U.guesses)
    print(' surplus', len(sur), Counter(lvl[g] for g in sur).most_common(4), 'lost', sum((Counter(U.guesses)-tot).values()))
