#!/usr/bin/env python3
"""Regenerates /verif/MANIFEST.json from the table below (single source of truth for the interface)."""
import json, os
V = '/verif'
CHECKS = {
 'C01': dict(level='exploration', ref='3/C01', technique='runtime monitor on every PcfgQueue.next() (online order/probability assertions) over generated tie-heavy rulesets + fresh-process determinism replay',
   text='Held on every POP of every generated ruleset run to exhaustion: reported probabilities non-increasing, equal (within (n+3) ulp) to the exact rational product of the loaded factors, and the POP sequence identical in fresh interpreters with other hash seeds. Exploration, not proof: reach comes from generators aimed at exact float ties, underflow, repeated types and duplicate structures.',
   note='Trusts: the independent on-disk parser/enumerator in vlib/oracles.py; well-formed rulesets only; languages <= 20000 pre-terminals.'),
}
PENDING = {}
def main():
    props = [json.loads(l) for l in open(os.path.join(V, 'properties.jsonl'))]
    checks, na = [], []
    for p in props:
        pid = p['id']
        c = CHECKS.get(pid)
        if c and os.path.exists(os.path.join(V, 'vlib', 'props', pid.lower() + '.py')):
            checks.append({
                'property_id': pid,
                'quick_cmd': f'./check {pid} --tier quick',
                'thorough_cmd': f'./check {pid} --tier thorough',
                'evidence_file': f'/verif/evidence/{pid}.json',
                'replay_cmd_template': f'./check {pid} --replay {{path}}',
                'engine': 'pcfg-runtime-monitors',
                'level_claimed': {'category': c['level'], 'text': c['text'], 'design_ref': 'DESIGN.md section ' + c['ref']},
                'level_note': c['note'],
                'technique': c['technique'],
            })
        else:
            na.append({'property_id': pid, 'reason': PENDING.get(pid, 'check not built yet in this round (planned: see DESIGN.md section 3); not claimed until its monitor exists and is silent on the unchanged tree')})
    m = {
        'version': 1,
        'setup_cmd': "/venv/bin/pip install -q --no-index --find-links /opt/veriftools/wheels --target /verif/.deps icontract >/dev/null 2>&1; /venv/bin/python -B -c \"import sys; sys.path.append('/verif/.deps'); import icontract; print('icontract', icontract.__version__)\"",
        'hooks': {'guard': 'PCFG_CRACKER_VERIF', 'enable': 'no source hooks: monitors wrap the real functions from outside (function wrapping, sys.monitoring, builtins.input stand-in, sys.addaudithook); the guard name is reserved and unused',
                  'baseline_off_cmd': 'cd /repo && /venv/bin/python -m pytest -ra -q -p no:cacheprovider --timeout=900 --continue-on-collection-errors',
                  'source_commits': [], 'add_only': True},
        'engines': [{'name': 'pcfg-runtime-monitors', 'path': '/verif/vlib', 'serves_properties': [c['property_id'] for c in checks],
                     'kind_free_text': 'runtime monitoring: real code driven by generated/hostile workloads under wrappers, online invariants, recorded histories checked against independent reference models, crash-point and schedule enumeration'}],
        'checks': checks,
        'notes': 'Tree under test = VERIF_REPO (default /repo), copied to a private scratch dir at the start of every check process, so checks always run the current working tree. Exit 0 held / 1 VIOLATION / 2 INCONCLUSIVE. known_findings.json lists recorded defects (by mechanism) and fixed ones.',
        'not_applicable': na,
    }
    json.dump(m, open(os.path.join(V, 'MANIFEST.json'), 'w'), indent=1)
    print('checks:', [c['property_id'] for c in checks]); print('not claimed:', [x['property_id'] for x in na])
if __name__ == '__main__':
    main()
