#!/usr/bin/env python3
"""Regenerates /verif/MANIFEST.json from the table below (single source of truth for the interface)."""
import json, os
V = '/verif'
CHECKS = {
 'C01': dict(level='exploration', ref='3/C01', technique='runtime monitor on every PcfgQueue.next() (online order/probability assertions) over generated tie-heavy rulesets + fresh-process determinism replay',
   text='Held on every POP of every generated ruleset run to exhaustion: reported probabilities non-increasing, equal (within (n+3) ulp) to the exact rational product of the loaded factors, and the POP sequence identical in fresh interpreters with other hash seeds. Exploration, not proof: reach comes from generators aimed at exact float ties, underflow, repeated types and duplicate structures.',
   note='Trusts: the independent on-disk parser/enumerator in vlib/oracles.py; well-formed rulesets only; languages <= 20000 pre-terminals.'),
 'C02': dict(level='exploration', ref='3/C02', technique='recorded POP history vs itertools.product reference language (multiset equality) + frontier invariant asserted on the live heap after every pop',
   text='Held on every generated ruleset run to exhaustion: the multiset of popped pre-terminals equals the independently enumerated language (one per derivation, duplicate structures counted separately) and after every pop no node is lost, orphaned, duplicated or both emitted and queued. Non-trivial cases are languages in which a node has several parents of exactly equal probability; the distinct tie patterns seen are reported.',
   note='Trusts vlib/oracles.py; languages <= 20000 nodes; frontier invariant only where base structures are distinguishable and <= 1500 nodes.'),
 'C04': dict(level='exploration', ref='3/C04', technique='per-POP monitor on create_guesses (lines written + return value) vs reference expansion; Markov pre-terminals vs brute-force OMEN enumeration',
   text='Held for every pre-terminal of every generated ruleset: the lines the real create_guesses writes are, as a multiset, the product of the chosen groups with masks applied to the preceding alpha word; its return value equals the number of lines; loaded groups equal the on-disk lines carrying that probability; a Markov pre-terminal yields exactly the strings of its one OMEN level.',
   note='Trusts vlib/oracles.py (Language.expand, OmenModel); well-formed rulesets; OMEN levels <= 100000 strings.'),
 'C08': dict(level='fault_enumeration', ref='3/C08', technique='crash-point enumeration: every cut point k through the real restore code + scripted quit/--load histories through the real main(), keypress thread and .sav file; offline history checker',
   text='For every explored ruleset ALL interruption points k are enumerated through the real restore path, and sampled 1-4 cycle histories run through the real main() with q delivered at chosen POP/GUESS events. The checker demands: nothing of the uninterrupted run is lost, every run is non-increasing, nothing above the saved probability, repeats only at exactly a saved probability, UUID mismatch refused.',
   note='Trusts the session driver (scripted input() stand-in, no-op sleep) not to change the logic under test; rulesets without Markov structure (C15 covers those); quit during the final pre-terminal excluded (see DESIGN).'),
 'C10': dict(level='exploration', ref='3/C10', technique='real MarkovCracker pulled to exhaustion per level under three cache histories vs brute-force enumeration of the same on-disk model',
   text='Held on every (model, level) explored: Counter(generated) == Counter(brute force), then None; identical sequences with a fresh cache, a cache shared over shuffled/repeated levels, and a cache pre-filled by interrupted generations (cache hits are counted to show history mattered).',
   note='Trusts OmenModel.all_levels; well-formed models; <= 150000 strings per model.'),
 'C15': dict(level='fault_enumeration', ref='3/C15', technique='crash-point enumeration inside OMEN levels through the real main()/keypress thread/.sav/.omn files, multi-cycle histories, offline stream checker',
   text='For every Markov level of every explored ruleset and every position j (all j for small levels, boundaries + sample beyond) q is delivered right after the j-th guess; the resumed run must continue with exactly the owed remainder (sequence equality, no skip/repeat), also when interrupted again inside the remainder, and later cycles must not replay it; whole-history accounting as in C08. The recorded finding F-C15b (final pre-terminal) is reported as KNOWN-FINDING.',
   note='Trusts the session driver; level contents anchored to the brute-force OMEN model; levels of 2-300 strings.'),
 'C12': dict(level='fault_enumeration', ref='3/C12 + 2.4', technique='schedule enumeration with a sys.monitoring LINE-event scheduler over the two real threads (deliver ENTER/h/q/EOF/handler-error at generation-thread yield point p, park the helper after n steps or right after should_exit=True, release at p2) + real CLI subprocesses under 8 stdin conditions; offline stream checker',
   text='For every explored session the generation thread is stopped at sampled statement boundaries (quick: up to 200 per session, thorough: up to 400 per session) and the real keypress thread is made to act there; without q the recorded stream must equal the uninterrupted stream exactly, with q it must be a prefix ending at a pre-terminal boundary or between Markov guesses, saved after its last guess, honoured within one further pop, and completed by --load; the same during the replay of a restored OMEN remainder. At the process boundary stdout must be the full stream for pty / open pipe / EOF / newline+EOF / requests / /dev/null / closed stdin. Evidence counts distinct interleavings (hash of the merged thread/function/line trace).',
   note='Yield points are statement boundaries of the watched functions (no preemption inside a statement); sleep(0.1) in keypress is a no-op; quits landing in the final pre-terminal are C15/F-C15b; CLI exit status ignored.'),
 'C09': dict(level='exploration', ref='3/C09', technique='process-boundary monitor (stdout bytes of the real CLI vs the in-process recorded guess stream) + real main() with -n N for every N of small rulesets / boundary-targeted N, error-path runs',
   text='Held on everything explored: for every N (all N in 1..total+2 for streams <= 300 guesses, boundary-targeted N beyond) the real main() emits exactly the first min(N,total) guesses of the unlimited run, also inside pre-terminals and Markov levels and in random_walk mode; stdout of the real CLI is byte-for-byte the stream joined by newlines under all flag sets; error paths (unwritable save file, bad --limit, unknown ruleset) leave stdout free of diagnostics.',
   note='The reference stream is the in-process recording of print_guess (tied to the language by C02/C04); honeywords mode only counted; exit status ignored.'),
 'C14': dict(level='exploration', ref='3/C14', technique='differential monitor: POP sequences of the real queue under the four flag sets compared with each other and with the reference language; flag persistence through scripted quit/--load histories of the real main()',
   text='Held on every explored ruleset (Markov structure first/middle/last/absent/only): --skip_brute emits exactly the non-Markov pre-terminals of the default run in the same order (modulo rounding-level ties) with probabilities rescaled by 1/(1-P(M)) within 6 ulp, and is the identity without a Markov structure; --all_lower collapses every mask table to the all-L mask with probability 1 and changes nothing else; a resumed session follows the flags stored in the save file even when --load repeats none or contradicts them.',
   note='Trusts vlib/oracles.py; P(Markov) taken from the first base-structure line that is exactly "M".'),
 'C03': dict(level='exploration', ref='3/C03', technique='end-to-end monitor: real run_trainer on generated lists (SEGMENTED events recorded), then the real guesser run to exhaustion with every create_guesses recorded; membership + probability-mass oracle',
   text='Held on every completed training explored: each training password whose recorded structure has no e-mail/website segment and whose letters are in the stated case domain occurs (exact string) among the guesses generated from the ruleset with --skip_brute, and the probabilities of all emitted guesses sum to 1 +- 1e-9.',
   note='Case domain as stated in the property (checked per character); trainings that abort are counted, not judged; languages <= 300000 guesses; ASCII-compatible encodings.'),
 'C05': dict(level='exploration', ref='3/C05', technique='fuzzing the real PCFGPasswordParser under icontract post-conditions on every detect_* function + reference segment validator on the section list handed to base_structure_creation + counter/tally comparison',
   text='Held on every generated string (quick ~6e4, thorough ~5e6 incl. 4000-character strings): the segmentation tiles the password, labels state true lengths, every label is sound per the reference validator (digit maximality, letters only, multi-word splits justified by an independent tally of the detector history, years, keyboard walks on re-typed layouts, fixed context list, others without letters/digits), parse never raises, counters equal tallies. The repository\'s own tests are run once with the contracts on (thorough). Two recorded findings are reported as KNOWN-FINDING (U+0130; recursion depth on ~1000 walks).',
   note='Trusts oracles.validate_segmentation and the harness tally; E/W soundness checked lightly; multi-word completeness not required.'),
 'C06': dict(level='exploration', ref='3/C06', technique='trainer monitor: harness tallies of the SEGMENTED events vs every file the real trainer wrote (byte-level reader) + fresh-process determinism of the real trainer.py under different hash seeds',
   text='Held on every completed training explored: every terminal/mask/base/Prince/raw list holds exactly the tallied items once, probability = count/total (1e-12), most-to-least probable, sum 1; Markov pseudo-count N(1/c-1), absent for coverage 1, sole entry for coverage 0; e-mail/website structures only in raw_grammar.txt; config file lists = files on disk; two CLI trainings in fresh processes with different PYTHONHASHSEED are byte-identical apart from the uuid line.',
   note='Trusts the harness tally (C05 validates the segments it is built from); provider/host lists not re-derived; alpha lists containing Greek sigma compared elsewhere (context-sensitive lower()).'),
 'C07': dict(level='exploration', ref='3/C07', technique='round-trip monitor: real trainer on lists carrying each code point in 8 placements, then byte-level reader vs harness tally vs real guesser loader vs real scorer loader vs both OMEN loaders',
   text='Held for every code point explored (quick: every splitlines/strip-special code point + random BMP/astral under 4 encodings; thorough: ALL 63488 BMP scalars under utf-8 + 4000 astral + 6 legacy encodings): the input filter accepts exactly the reference-valid passwords, and every value/probability the trainer wrote is read back identically by the LF-only reference reader, the guesser loader, the scorer loader and the three OMEN readers; config file lists equal directory listings; loaders print no diagnostics.',
   note='U+0130 excluded (its segmentation is finding F-C05); ASCII-compatible encodings; thorough tier is exhaustive over BMP scalars for utf-8 only.'),
 'C11': dict(level='exploration', ref='3/C11', technique='three-way differential monitor on every candidate string: captured trainer state (find_omen_level) vs real OmenScorer vs level at which the real MarkovCracker emits it, anchored to a reference level computed from the files',
   text='Held on every candidate of every explored training (training passwords, every string the generator emits at any level, all short strings over alphabet + a foreign symbol, empty and over-long strings): the four level numbers coincide (or all say -1), no string is generated at two levels, and omen_pws_per_level.txt equals the tally of the trainer levels.',
   note='max_len 5-8 handed to run_trainer so the generator can be enumerated; models <= 60000 strings.'),
 'C13': dict(level='exploration', ref='3/C13', technique='scorer monitor: real PCFGPasswordScorer on training passwords / guesser output / perturbations, detectors wrapped as imported into the scorer, membership + probability lookup in the language the real guesser emits, repeated and shuffled scoring on two scorer instances',
   text='Held on every candidate explored: p > 0 implies the guesser (default flags) emits that exact string from a pre-terminal of probability p (1e-9 relative); a detected e-mail / website gives category e / w and probability 0, nothing detected never gives e / w; scores are identical when asked again in another order and on a freshly loaded scorer. Candidates with letters outside the one-to-one case domain hit the recorded finding F-C13.',
   note='Languages <= 300000 guesses; Markov pre-terminals are not part of the PCFG score.'),
 'C16': dict(level='exploration', ref='3/C16', technique='scripted random source inside pcfg_grammar: every region of every uniform draw is probed (midpoint, edges, breakpoints +-1ulp, 0, 1-2^-53) and compared with an exact-rational reference sampler; CLI runs for count, language membership and reproducibility',
   text='Held on every explored ruleset (normalised, un-normalised/edited, trained; skip_brute on/off): for every region of the base draw and of each variable position the real random_walk selects the derivation the reference sampler selects (weights prob x group size, normalised by the list total), scripted value/mask choices give exactly the reference word, honeywords -n N writes N words of the non-Markov language, two random_walk processes are byte-identical.',
   note='Distribution is conditional on a non-Markov structure; at breakpoints +-1ulp either neighbour accepted; rulesets are sampled, regions per ruleset are enumerated.'),
 'C17': dict(level='exploration', ref='3/C17', technique='monitor on the real create_prince_wordlist (every PcfgQueue.next and every word) vs reference language of the Prince folder; every --size N for small lists; CLI stdout vs -o file',
   text='Held on every explored ruleset and both --all_lower settings: unbounded output equals the terminals of the Prince grammar once each, pre-terminal probabilities non-increasing, --size N gives exactly the first N words for every N (all N for lists <= 400 words), stdout and -o FILE identical.',
   note='Word lists <= 5000 words; the unbounded in-process list is the reference for --size.'),
 'C18': dict(level='exploration', ref='3/C18', technique='differential monitor: omen_keyspace.txt / pcfg_omen_prob.txt written by the real trainer vs number of distinct strings the real MarkovCracker emits per level vs brute-force count from the files',
   text='Held for every level listed by every explored training (lists dominated by length == ngram, a single length, or mixed): keyspace == generator count == reference count, and the saved probability == (passwords at the level / N) / keyspace within 1e-12.',
   note='max_len 5-8 harness bound; models <= 200000 strings; the 10^10 cut-off is out of reach.'),
 'C19': dict(level='exploration', ref='3/C19', technique='history/differential monitor: real read_password() vs an LF-only reference reader on five renderings of one logical list with junk lines; the three passes of the real run_trainer recorded and compared; trained trees compared byte-wise',
   text='Held on every explored list x {plain, all-hex, mixed, count-prefixed, prefixed+hex} x {LF, CRLF}: the real reader yields exactly the reference sequence and counters, junk lines (blank, TAB, every C0 control incl. the codec line separators, NEL/LS/PS, undecodable bytes, malformed $HEX) are skipped without leaking, all three training passes see the same sequence, and the five trained rulesets are byte-identical modulo uuid/filename.',
   note='Lone CR inside a line not generated; ASCII integer count prefixes.'),
 'C20': dict(level='exploration', ref='3/C20', technique='file-system monitor (sha256 snapshots + sys.addaudithook write/remove log) around the real edit_rules() + reference filter on independently tokenised labels + guess-length monitor on the edited ruleset',
   text='Held on every explored (ruleset, options, --copy) combination: the edited grammar.txt is the original list minus exactly the structures failing the length / terminal-set / regex filters, survivors byte-identical and in order, no other file written or removed, source untouched under --copy; guesses of the edited ruleset respect the bounds except through context (X) segments, the recorded finding F-C20.',
   note='Label lengths <= 999; membership of X-structures under a length filter not judged; Markov structure kept by a length filter.'),
}
PENDING = {}
def main():
    props = [json.loads(l) for l in open(os.path.join(V, 'properties.jsonl'))]
    checks, na = [], []
    for p in props:
        pid = p['id']
        c = CHECKS.get(pid)
        if c and os.path.exists(os.path.join(V, 'vlib', 'props', pid.lower() + '.py')):
            checks.append({
                'property_id': pid,
                'quick_cmd': f'./check {pid} --tier quick',
                'thorough_cmd': f'./check {pid} --tier thorough',
                'evidence_file': f'/verif/evidence/{pid}.json',
                'replay_cmd_template': f'./check {pid} --replay {{path}}',
                'engine': 'pcfg-runtime-monitors',
                'level_claimed': {'category': c['level'], 'text': c['text'], 'design_ref': 'DESIGN.md section ' + c['ref']},
                'level_note': c['note'],
                'technique': c['technique'],
            })
        else:
            na.append({'property_id': pid, 'reason': PENDING.get(pid, 'check not built yet in this round (planned: see DESIGN.md section 3); not claimed until its monitor exists and is silent on the unchanged tree')})
    m = {
        'version': 1,
        'setup_cmd': "/venv/bin/pip install -q --no-index --find-links /opt/veriftools/wheels --target /verif/.deps icontract >/dev/null 2>&1; /venv/bin/python -B -c \"import sys; sys.path.append('/verif/.deps'); import icontract; print('icontract', icontract.__version__)\"",
        'hooks': {'guard': 'PCFG_CRACKER_VERIF', 'enable': 'no source hooks: monitors wrap the real functions from outside (function wrapping, sys.monitoring, builtins.input stand-in, sys.addaudithook); the guard name is reserved and unused',
                  'baseline_off_cmd': 'cd /repo && /venv/bin/python -m pytest -ra -q -p no:cacheprovider --timeout=900 --continue-on-collection-errors',
                  'source_commits': [], 'add_only': True},
        'engines': [{'name': 'pcfg-runtime-monitors', 'path': '/verif/vlib', 'serves_properties': [c['property_id'] for c in checks],
                     'kind_free_text': 'runtime monitoring: real code driven by generated/hostile workloads under wrappers, online invariants, recorded histories checked against independent reference models, crash-point and schedule enumeration'}],
        'checks': checks,
        'notes': 'Tree under test = VERIF_REPO (default /repo), copied to a private scratch dir at the start of every check process, so checks always run the current working tree. Exit 0 held / 1 VIOLATION / 2 INCONCLUSIVE. known_findings.json lists recorded defects (by mechanism) and fixed ones.',
        'not_applicable': na,
    }
    json.dump(m, open(os.path.join(V, 'MANIFEST.json'), 'w'), indent=1)
    print('checks:', [c['property_id'] for c in checks]); print('not claimed:', [x['property_id'] for x in na])
if __name__ == '__main__':
    main()
