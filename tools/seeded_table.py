#!/usr/bin/env python3
"""Print the DESIGN.md table rows for seeded changes: tools/seeded_table.py <name> ...   (descriptions/notes come from seeded/<name>/meta.json keys 'summary' and 'note')"""
import os, sys, json
V = os.path.dirname(os.path.dirname(os.path.abspath(__file__)))
print('| seeded change | what it is / what it needs | check (quick) | exit | first line reported | note |')
print('|---|---|---|---|---|---|')
for n in sys.argv[1:]:
    m = json.load(open(os.path.join(V, 'seeded', n, 'meta.json')))
    for chk, r in (m.get('checks') or {}).items():
        fv = r['first_violation'].replace('what: ', '').replace('|', '\\|')[:115]
        print(f"| seeded/{n} | {m.get('summary', '')} | {chk} | {r['exit']} | {fv} | {m.get('note_short', 'caught as built')} |")
